#!/bin/bash
# usage: tools_try_mutant.sh <patch.diff> <ID> [more IDs]   -- applies the patch to /repo, runs quick checks, reverts
patch=$(readlink -f $1); shift
if ! git -C /repo diff --quiet; then echo "/repo dirty"; exit 2; fi
if ! git -C /repo apply --check "$patch" 2>/dev/null; then echo "PATCH DOES NOT APPLY: $patch"; exit 3; fi
git -C /repo apply "$patch"
for id in "$@"; do
  out=$(cd /verif && VERIF_NO_EVIDENCE=1 timeout 900 /venv/bin/python run_check.py $id 2>&1); rc=$?
  echo "== $id exit=$rc"; echo "$out" | grep -E "VIOLATION|signature|detail|HARNESS|tier=" | head -12
done
git -C /repo checkout -- .
