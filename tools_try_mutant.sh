#!/bin/bash
# usage: tools_try_mutant.sh <patch.diff> <ID> [more IDs]
# Applies the patch in a scratch worktree of /repo's HEAD (never in /repo itself: background runs read /repo), runs the quick checks
# of the given properties against it (VERIF_REPO), reverts.
patch=$(readlink -f $1); shift
wt=${TRY_WT:-/tmp/wt_try}
head=$(git -C /repo rev-parse HEAD)
if [ ! -d $wt ]; then git -C /repo worktree add -q --detach $wt $head || exit 2; fi
git -C $wt checkout -q -- . ; git -C $wt checkout -q --detach $head
if ! git -C $wt apply --check "$patch" 2>/dev/null; then echo "PATCH DOES NOT APPLY: $patch"; exit 3; fi
git -C $wt apply "$patch"
for id in "$@"; do
  out=$(cd /verif && VERIF_REPO=$wt VERIF_NO_EVIDENCE=1 timeout 1800 /venv/bin/python run_check.py $id 2>&1); rc=$?
  echo "== $id exit=$rc"
  echo "$out" | grep -E "VIOLATION|signature|detail|tier=|HARNESS" | head -8 | cut -c1-400
done
git -C $wt checkout -q -- .
