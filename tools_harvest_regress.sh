#!/bin/bash
# For every seeded change: run the quick check of its property against a scratch worktree with the change applied (seeds 1..3 until
# it is caught) and keep up to two of the violating inputs as committed regression inputs under regress/<property>/ - the
# "seconds-long replay tier of saved inputs": once a generated input has exposed a change, it keeps doing so whatever the generator
# draws later. usage: tools_harvest_regress.sh <scratch worktree of /repo> [mutant names...]
wt=$(readlink -f $1); shift
names="$@"; [ -z "$names" ] && names=$(ls -d /verif/seeded/C*/ | xargs -n1 basename)
for m in $names; do
  d=/verif/seeded/$m; pid=${HARVEST_PID:-${m%%_*}}  # HARVEST_PID=C08: harvest under another property's check
  ls /verif/regress/$pid/${m}__*.json >/dev/null 2>&1 && continue
  git -C $wt checkout -q -- .
  git -C $wt apply --check $d/patch.diff 2>/dev/null || { echo "$m: patch does not apply"; continue; }
  git -C $wt apply $d/patch.diff
  got=0
  for sd in 1 2 3; do
    stamp=$(mktemp); sleep 1
    out=$(cd /verif && VERIF_SEED=$sd VERIF_REPO=$wt VERIF_NO_EVIDENCE=1 timeout 1800 /venv/bin/python run_check.py $pid 2>&1); rc=$?
    if [ $rc -eq 1 ]; then
      mkdir -p /verif/regress/$pid; k=0
      for f in $(echo "$out" | sed -n 's/^VIOLATION property=[A-Z0-9]* replay=//p' | head -2); do
        k=$((k+1)); cp $f /verif/regress/$pid/${m}__$k.json
      done
      [ $k -gt 0 ] && { echo "$m: caught at seed $sd, $k inputs kept"; got=1; rm -f $stamp; break; }
    fi
    rm -f $stamp
  done
  [ $got = 0 ] && echo "$m: not caught at seeds 1..3"
done
git -C $wt checkout -q -- .
