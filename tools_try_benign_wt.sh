#!/bin/bash
# usage: tools_try_benign_wt.sh <scratch worktree of /repo> <patch.diff> [IDs...] : applies a (supposedly behaviour-preserving)
# patch in the scratch worktree, runs the quick checks against it (VERIF_REPO), reverts. Never touches /repo.
wt=$(readlink -f $1); patch=$(readlink -f $2); shift 2
ids="$@"; [ -z "$ids" ] && ids="C01 C02 C03 C04 C05 C06 C07 C08 C09 C10 C11 C12 C13 C14 C15 C16 C17 C18 C19"
git -C $wt checkout -q -- . 
if ! git -C $wt apply --check "$patch" 2>/dev/null; then echo "PATCH DOES NOT APPLY: $patch"; exit 3; fi
git -C $wt apply "$patch"
bad=0
for id in $ids; do
  out=$(cd /verif && VERIF_REPO=$wt VERIF_NO_EVIDENCE=1 timeout 1800 /venv/bin/python run_check.py $id 2>&1); rc=$?
  if [ $rc -ne 0 ]; then bad=1; echo "== $id exit=$rc"; echo "$out" | grep -E "VIOLATION|signature|detail|HARNESS" | head -6 | cut -c1-300; fi
done
git -C $wt checkout -q -- .
[ $bad = 0 ] && echo "$patch: all checks quiet"
