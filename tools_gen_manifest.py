#!/venv/bin/python
"""Regenerates MANIFEST.json from the table below (kept in one place so the file stays valid)."""
import json, os, sys
HERE = os.path.dirname(os.path.abspath(__file__))

CHECKS = {
 # id: (level, technique, level text, level note)
 "C15": ("exploration", "exhaustive sweep of the PDK device tables and logic-cell libraries plus Hypothesis-generated hierarchies and compile histories; oracle = before/after snapshot, documented-row validity predicate, closure checker and netlisters",
         "Every row of every PDK device table (by model name), every type/family/threshold triple, size and multiplier variants, and every logic cell are compiled / instantiated; generated hierarchies with shared sub-modules are compiled once, twice, after an unrelated walk, and via hdl21.pdk.compile by default, name and module with several PDKs registered. Hierarchy, names and connection objects must be unchanged, unmapped targets untouched, mapped targets one of the documented rows with given sizes preserved, every device port connected, the result closed, exportable and netlistable, repeat compiles idempotent, unsatisfiable requests refused with a descriptive error.",
         "A row is asserted only when readme and walker tables agree; PDK-derived sizes are recorded only; the open finding C15-K1 (port-count mismatched requests) is matched per (pdk, primitive, device)."),
 "C16": ("translation_validation", "property-based testing of flatten(): generated hierarchies validated against the reference interpreter's flat circuit (isomorphism), plus adversarial ':' names",
         "For generated hierarchies (leaves at every level, shared sub-modules, buses, pass-through ports, port-less sub-modules) flatten(m) must return only primitive / external instances, one per leaf device, with m's ports unchanged, and its package must be isomorphic to the reference interpreter's circuit of m; designs flatten may refuse (slices, concats, ':' in names) must raise or be right.",
         "Trusts the reference interpreter and package reader; sampled; the flatten-must-succeed class is decided from the elaborated hierarchy (all connections whole signals, no ':' in names)."),
 "C17": ("exploration", "property-based testing of Sim export against a reference encoder, over generated Sim descriptions built three ways and exported alone or in lists",
         "Generated Sims (every analysis, control and option type, nesting to depth 3, every Scalar and SaveTarget form, valid and invalid testbenches) are built by constructor list, @sim class body and add-methods and exported alone or in lists sharing testbenches; top / package / per-attribute entries (order, kinds, names, expressions, paths, sweeps, nearest-double values, inner analyses, distinct generated names) are compared with a reference encoder, construction styles must agree, invalid testbenches must raise.",
         "List-valued save targets are read as comma-joined names; Literal-valued numeric fields, SaveMode.SELECTED and external-module testbenches are recorded only; sampled."),
 "C18": ("exploration", "model-based (stateful) property testing: generated operation sequences on a Module / Bundle executed in lock step with a model dict; invariant checked after every step",
         "Sequences of setattr / add / add(name=) / re-add / get and negative operations over a five-name alphabet with values of every attribute kind are applied to a Module or Bundle and to a model dict; after every step the namespace, every per-kind view, get(), attribute access, port listing and parent links must agree with the model, negative operations must raise without effect, the final module must export exactly the model's content, refuse additions after elaboration, and equal the class-style definition of the same content.",
         "Objects are also assigned under a second name (alias) and lent to another module and handed back; what a module still holding an aliased / renamed / lent object exports as is not asserted; reserved names through add() and post-'elaboration' additions to Bundles are recorded only; sampled histories of up to 30 steps."),
 "C19": ("exploration", "exhaustive enumeration of (n, unit cell, ordered series pair, call form) for Series / MosStack / Wrapper; oracle = documented chain evaluated by the reference interpreter, compared up to isomorphism",
         "Every n up to N, every unit cell of the family (primitives with 2-4 ports, external modules, modules with bus, bundle and oddly ordered ports), every ordered pair of distinct scalar ports given by name, by Signal or mixed, MosStack with default and given units and Wrapper of every unit are generated and exported; the package must be isomorphic to the documented chain / wrapper topology written as a spec; nser < 1 must raise.",
         "Complete for the stated bounds (N=6 quick, 12 thorough); identical unit instances make the comparison rely on the isomorphism search."),
 "C01": ("translation_validation", "property-based testing: Hypothesis-generated design programs, each validated against a reference interpreter (differential oracle, isomorphism of flat circuits)",
         "Each generated design program is built and exported by Hdl21 in a pristine process and its package, read with the netlisters' bit order, is compared up to isomorphism with an independent reference interpreter's flat circuit (devices, net partition over terminal and port bits, no-connect isolation).",
         "Trusts the reference interpreter (vlib/model.py), vlsir/protobuf and the vlsirtools bit-order convention; sampled program space with measured feature histogram; rejections are counted, not failures."),
 "C02": ("fault_enumeration", "property-based fault injection: for Hypothesis-generated valid designs the complete list of single-fault mutants (each validated as ill-formed by the reference interpreter) is planted; oracle = elaborate/to_proto/netlist must raise",
         "Every fault class of the statement is planted at every site of every generated base design (top or deep; scalar, bus, slice, concat, port-reference, bundle, anonymous-bundle, array, pair connections); each mutant runs in a pristine process and elaborate, to_proto, netlist and two retries must never return.",
         "Ill-formedness is decided by the reference interpreter's typing rules; out-of-range slice *bounds* are not planted (C03 permits Python clamping); base designs are sampled, mutants per base enumerated (capped at 160, cap hits counted)."),
 "C03": ("exploration", "exhaustive enumeration of a bounded index box plus Hypothesis-generated nested parents; oracle = Python list indexing",
         "Every index of the bounded box on a Signal parent (complete) and sampled indices on nested slice/concat/port-reference (plain instances and broadcast-connected instance arrays)/bundle-reference parents are built, width-queried (for port references also before use), connected, elaborated and exported - also after trial indices and neighbouring spellings of the index were tried on the same parent; acceptance, reported width and the exported bit sequence are compared with Python's own list indexing. Concatenations of whole signals resized after (or before) their width was read must report and export the list concatenation of their parts as they are then.",
         "Trusts Python list slicing and the package reader; nested parents sampled; acceptance is only required where the statement requires it."),
 "C04": ("exploration", "history-based property testing: generated interleaved connect/replace/disconnect histories per module, model of the final mapping as oracle (isomorphism), step-wise Instance.conns agreement, metamorphic comparison with the history-free design",
         "Every module of a generated design is given an interleaved operation history in which each port is first tied to 0-3 other connectables of any kind, possibly disconnected or replace()d, and finally to its real connection; Instance.conns must equal the running mapping after every step, the exported package must be isomorphic to the reference interpreter's circuit of the final mapping, and a history must not make a design un-elaboratable that elaborates when written directly.",
         "The reference interpreter sees only the final mapping; references made by replaced connections are treated as not live; sampled, with the replaced-kind x replacing-kind matrix reported."),
 "C05": ("exploration", "metamorphic property-based testing: adversarial renaming of designer objects onto the names Hdl21 invents, C01 differential oracle plus name-uniqueness",
         "Designs are exported once to learn the names the elaborator invents per module; designer signals, ports, instances, bundle instances and no-connect names are then renamed onto those names (and '_' variants); the renamed design must raise or export a package with pairwise distinct names that is isomorphic to the reference interpreter's circuit.",
         "Relies on the reference interpreter being name-agnostic; top-level bundle ports are made internal so port names are designer-chosen; sampled."),
 "C06": ("exploration", "property-based testing plus corpus sweep: closure checker (validity predicate over every exported package) and acceptance by from_proto and the vlsirtools netlisters",
         "Every package obtained from generated designs, adversarially named designs, the examples and built-in generators over their parameter ranges, PDK-compiled designs, and whatever to_proto returns for ill-formed designs (C02 fault planter) is checked for closure (names, definition order, targets, port sets, bit ranges, widths) and must be accepted by from_proto and the spice and spectre netlisters.",
         "Closure rules read from the VLSIR schema; netlisters are not run on packages that reference hdl21.primitives (they reject those by design)."),
 "C07": ("exploration", "history-based property testing: enumerated and Hypothesis-sampled histories of construct/elaborate/to_proto/netlist calls per generated design DAG, each in a pristine process; oracle = byte equality with the baseline history",
         "For generated design DAGs every order of single-module elaborations (lazy and eager construction), every ordered pair as one list call, netlist calls and sampled longer mixed histories are run in separate pristine processes; the final package must be byte-identical to the one-shot export, exporting again must change nothing, elaborated modules must refuse additions (also ones re-using existing names) and export unchanged afterwards.",
         "DAGs of at most 5 modules; orders complete for n<=4, 60 sampled orders for n=5; netlister refusals inside a history are ignored."),
 "C08": ("fault_enumeration", "fault-injection property testing: enumerated (fault, continuation) pairs per generated design, faults injected through the public custom-pass-list API, C02 design faults and raising generator bodies; oracle = differential against a pristine process",
         "Every (pass position, module) and every (rewriting pass, module, k-th helper call) of each generated design is made to fail, as are one design fault per class and generator bodies/naming; after each failure five continuations run in the same process and whatever they return must be byte-identical to a pristine process's result, retries must repeat the original error, unrelated and non-offending designs must export normally, failed generator calls must run again.",
         "Faults are injected with subclasses of the real passes (own class-level caches); 'repair' of an injected fault is switching it off; raising forever for the offending module is accepted."),
 "C09": ("exploration", "property-based testing of generator memoisation and naming over generated param-class shapes and adversarial value pairs, with a body call counter and cross-process name comparison",
         "For generated param-class shapes and pairs of value assignments (biased to near-collisions) fresh generators are declared in pristine processes: equal parameters must give the identical module with one body run (also after the result was dropped and garbage collected), unequal ones distinct modules with distinct names; a parent instantiating both must export; names must not change after first return nor differ between three process histories.",
         "Parameter equality = Python equality of validated instances cross-checked with exact values; Module-valued parameters come from a pool that includes same-named modules from two libraries and same-named external modules in two domains; first calls aborted by Exceptions / BaseExceptions and uncached pass-through generators are part of the patterns; sampled."),
 "C10": ("exploration", "exhaustive enumeration of a bounded family of bundle-definition trees plus Hypothesis-generated deeper trees; oracle = reference flattener written from the statement",
         "For every tree of the enumerated family and sampled deeper/wider trees the exported module's ports (name, width, direction) and internal signals are compared with a reference flattener (names by path, parity of flips for declared ports, role source/sink rule, plain leaves undirected, internal instances -> signals); bundle connections are checked with the C01 isomorphism oracle.",
         "Trusts the reference flattener's reading of the statement (role directions not flipped); enumerated family complete only within its stated bounds."),
 "C11": ("translation_validation", "round-trip property-based testing: to_proto(from_proto(P)) == P over generated designs, the corpus and a parameter-space sweep",
         "Every package from generated designs (single top), the examples/built-in generators and a generated sweep of primitive / external-module parameters, spice types, port directions and literals is imported and re-exported; the result must equal the original message field by field, and the first differing field is reported.",
         "Protobuf equality; tops recovered as un-instantiated imported modules in package order; sampled."),
 "C12": ("exploration", "differential testing across real processes: generated designs run under sampled PYTHONHASHSEED values, batch permutations and allocation histories; oracle = identical digests",
         "Batches of generated designs and the corpus are executed by real python subprocesses with different hash seeds, orders and amounts of unrelated earlier allocation / elaboration; the SHA-256 of the deterministic package serialisation and of the spice, spectre and verilog netlists must agree across all workers.",
         "Samples a few dozen hash seeds and histories per design: cannot show absence of hash-order dependence; every other worker discards and collects each design (address re-use, incl. churn designs placed on re-used anonymous-bundle addresses); hand-written corner designs ride along in every third batch."),
 "C13": ("exploration", "property-based testing (Hypothesis) of parameter export and to_scalar against a reference encoder written from the statement",
         "Generated parameter assignments for all 21 primitives and dict/paramclass/Scalar external modules are exported with to_proto and every exported ParamValue (kind, digits, prefix, text, double bits, omission of None, VLSIR primitive name and pulse renaming) is compared with a reference encoder; to_scalar is checked on every value form; order cases require a value to export byte-for-byte as it does alone in a fresh process whatever was exported before it (as another module or another instance of the same module).",
         "Trusts Decimal/Fraction and protobuf accessors; ambiguous strings and Decimal-typed external parameters are recorded only; sampling."),
 "C14": ("exploration", "property-based testing (Hypothesis) plus exhaustive enumeration of the 441 prefix pairs x mantissa set, oracle = fractions.Fraction arithmetic",
         "Every +,-,*,neg,abs,scale,conversion, the six comparisons, hash, int and float of generated operand pairs is compared with exact rational arithmetic; the prefix-pair box is complete, mantissas are sampled.",
         "Trusts CPython Fraction/Decimal/float(Fraction); tolerance read as absolute 1e-20 on values; sampling never shows absence."),
}

def main():
    props = [json.loads(l) for l in open(os.path.join(HERE, "properties.jsonl"))]
    checks, na = [], []
    for p in props:
        pid = p["id"]
        if pid in CHECKS:
            level, tech, text, note = CHECKS[pid]
            checks.append({
                "property_id": pid,
                "quick_cmd": "/venv/bin/python run_check.py %s --tier quick" % pid,
                "thorough_cmd": "/venv/bin/python run_check.py %s --tier thorough" % pid,
                "evidence_file": "/verif/evidence/%s.json" % pid,
                "replay_cmd_template": "/venv/bin/python run_check.py %s --replay {path}" % pid,
                "engine": "vlib",
                "level_claimed": {"category": level, "text": text, "design_ref": "DESIGN.md section 3, %s" % pid},
                "level_note": note,
                "technique": tech,
            })
        else:
            na.append({"property_id": pid, "reason": "check not built yet in this revision of /verif (planned in DESIGN.md section 3); not claimed until its check runs quietly on the unchanged tree"})
    man = {
        "version": 1,
        "setup_cmd": "/venv/bin/python -c 'import hypothesis' 2>/dev/null || /venv/bin/pip install --no-index --find-links /opt/veriftools/wheels hypothesis",
        "hooks": {
            "guard": "DAN_FRITCHMAN_HDL21_VERIF",
            "enable": "no hooks: every property is observed through Hdl21's public API; checks import /repo's working tree directly",
            "baseline_off_cmd": "cd /repo && /venv/bin/python -m pytest -ra -q -p no:cacheprovider --timeout=900 --continue-on-collection-errors",
            "source_commits": [],
            "add_only": True,
        },
        "engines": [{"name": "vlib", "path": "/verif/vlib", "serves_properties": sorted(CHECKS),
                     "kind_free_text": "Hypothesis-driven generators, reference interpreter for designs, independent package reader, isomorphism comparison, fork-per-case isolation"}],
        "checks": checks,
        "not_applicable": na,
        "notes": "All checks: /venv/bin/python run_check.py <ID> [--tier quick|thorough] [--replay file]; VERIF_SEED honoured; known_findings.json lists repaired (fixed:) and open defects.",
    }
    with open(os.path.join(HERE, "MANIFEST.json"), "w") as f:
        json.dump(man, f, indent=1)
    try:
        import jsonschema
        jsonschema.validate(man, json.load(open("/root/.vp/MANIFEST.schema.json")))
        print("MANIFEST valid; claimed:", sorted(CHECKS))
    except ImportError:
        print("written (jsonschema not available here)")

if __name__ == "__main__":
    main()
