#!/venv/bin/python
"""Single entry point: run_check.py <ID> [--tier quick|thorough] [--replay file]

Environment: VERIF_SEED (default 1), VERIF_TIER.  Exit 0 / 1 (VIOLATION line) / 2 (harness)."""
import os, sys, json, importlib, traceback

os.environ.setdefault("PYTHONHASHSEED", "0")
if os.environ.get("PYTHONHASHSEED") != "0" and not os.environ.get("VERIF_KEEP_HASHSEED"):
    os.environ["PYTHONHASHSEED"] = "0"
    os.execv(sys.executable, [sys.executable] + sys.argv)
if os.environ.get("_VERIF_REEXEC") != "1":
    # make sure the interpreter really runs with hash seed 0 (the variable must be set at start-up)
    os.environ["_VERIF_REEXEC"] = "1"
    os.execv(sys.executable, [sys.executable] + sys.argv)

sys.path.insert(0, os.path.dirname(os.path.abspath(__file__)))
sys.dont_write_bytecode = True


def main(argv):
    if len(argv) < 2:
        print(__doc__)
        return 2
    pid = argv[1].upper()
    tier = os.environ.get("VERIF_TIER", "quick")
    replay = None
    i = 2
    while i < len(argv):
        if argv[i] == "--tier":
            tier = argv[i + 1]; i += 2
        elif argv[i] == "--replay":
            replay = argv[i + 1]; i += 2
        else:
            print("unknown argument", argv[i]); return 2
    if tier not in ("quick", "thorough"):
        tier = "quick"
    try:
        mod = importlib.import_module("vlib.checks." + pid.lower())
    except Exception:
        traceback.print_exc()
        return 2
    try:
        if replay:
            from vlib import core, env
            env.setup_paths(pdks=True)  # (before anything imports hdl21: the tree under test, not an installed copy)
            with open(replay) as f:
                rc = json.load(f)
            case = rc.get("case", rc)
            fails = mod.replay(case)
            known = [e for e in core.load_known(pid) if e.get("status") == "open"]
            bad = [(s, d) for s, d in fails if not any(core.entry_matches(e, s) for e in known)]
            for s, d in fails:
                print("%s: %s" % (s, d[:500]))
            if bad:
                print("VIOLATION property=%s replay=%s" % (pid, replay))
                return 1
            print("replay: property held on this case" + (" (known findings only)" if fails else ""))
            return 0
        return mod.main(tier)
    except SystemExit:
        raise
    except Exception:
        traceback.print_exc()
        print("HARNESS-ERROR: check crashed", file=sys.stderr)
        return 2


if __name__ == "__main__":
    sys.exit(main(sys.argv))
