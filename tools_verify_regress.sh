#!/bin/bash
# Every stored regression input must (a) hold on the unchanged tree and (b) expose the seeded change it is named after.
# Inputs failing (a) are reported loudly; inputs failing (b) are useless and are deleted. usage: tools_verify_regress.sh [scratch worktree]
wt=${1:-/tmp/wt_try}
head=$(git -C /repo rev-parse HEAD)
[ -d $wt ] || git -C /repo worktree add -q --detach $wt $head
git -C $wt checkout -q -- . ; git -C $wt checkout -q --detach $head
for f in /verif/regress/${VERIFY_ONLY:-C*/*.json}; do  # VERIFY_ONLY='C15/C15_[ghi]*' restricts the run
  pid=$(basename $(dirname $f)); m=$(basename $f | sed 's/__[0-9]*\.json$//')
  clean=$(cd /verif && VERIF_REPO=$wt timeout 600 /venv/bin/python run_check.py $pid --replay $f >/dev/null 2>&1; echo $?)
  if [ "$clean" != "0" ]; then echo "BAD (fails on the unchanged tree, exit $clean): $f"; continue; fi
  p=/verif/seeded/$m/patch.diff
  if [ ! -f $p ] || ! git -C $wt apply --check $p 2>/dev/null; then echo "no applicable patch for $f (kept)"; continue; fi
  git -C $wt apply $p
  mut=$(cd /verif && VERIF_REPO=$wt timeout 600 /venv/bin/python run_check.py $pid --replay $f >/dev/null 2>&1; echo $?)
  git -C $wt checkout -q -- .
  if [ "$mut" = "1" ]; then echo "ok $f"; else echo "useless (exit $mut under its change), removed: $f"; rm -f $f; fi
done
