#!/bin/bash
# usage: tools_try_benign.sh <patch.diff> : applies a (supposedly behaviour-preserving) patch to /repo, runs ALL quick checks, reverts
patch=$(readlink -f $1)
if ! git -C /repo diff --quiet; then echo "/repo dirty"; exit 2; fi
if ! git -C /repo apply --check "$patch" 2>/dev/null; then echo "PATCH DOES NOT APPLY: $patch"; exit 3; fi
git -C /repo apply "$patch"
bad=0
for id in C01 C02 C03 C04 C05 C06 C07 C08 C09 C10 C11 C12 C13 C14 C15 C16 C17 C18 C19; do
  out=$(cd /verif && VERIF_NO_EVIDENCE=1 timeout 1200 /venv/bin/python run_check.py $id 2>&1); rc=$?
  if [ $rc -ne 0 ]; then bad=1; echo "== $id exit=$rc"; echo "$out" | grep -E "VIOLATION|signature|detail|HARNESS" | head -6 | cut -c1-300; fi
done
git -C /repo checkout -- .
[ $bad = 0 ] && echo "all 19 checks quiet"
find /verif/replay -name "*.json" -delete
