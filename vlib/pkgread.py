"""Independent reading of a vlsir.circuit.Package -> flat circuit, plus the closure checker (C06).

Written against the VLSIR schema and the bit-order convention the vlsirtools netlisters implement
(vlsirtools/netlist/spice.py format_signal_ref / format_signal_slice / format_concat): a signal
reference expands most-significant bit first, a slice expands top..bot, a Concat expands its parts
in list order, and the expansion is zipped with the target port's bits w-1..0."""
from fractions import Fraction
from decimal import Decimal


class PkgError(Exception):
    pass


PREFIX_EXP = None


def _prefix_exp(v):
    import vlsir
    global PREFIX_EXP
    if PREFIX_EXP is None:
        P = vlsir.SIPrefix
        PREFIX_EXP = {P.YOCTO: -24, P.ZEPTO: -21, P.ATTO: -18, P.FEMTO: -15, P.PICO: -12, P.NANO: -9,
                      P.MICRO: -6, P.MILLI: -3, P.CENTI: -2, P.DECI: -1, P.UNIT: 0, P.DECA: 1, P.HECTO: 2,
                      P.KILO: 3, P.MEGA: 6, P.GIGA: 9, P.TERA: 12, P.PETA: 15, P.EXA: 18, P.ZETTA: 21, P.YOTTA: 24}
    return PREFIX_EXP[v]


def param_value(pv):
    """vlsir ParamValue -> canonical python value"""
    w = pv.WhichOneof("value")
    if w == "int64_value":
        return ("num", Fraction(pv.int64_value))
    if w == "double_value":
        return ("num", Fraction(pv.double_value))
    if w == "string_value":
        return ("str", pv.string_value)
    if w == "literal":
        return ("lit", pv.literal)
    if w == "prefixed":
        p = pv.prefixed
        n = p.WhichOneof("number")
        if n == "int64_value":
            num = Fraction(p.int64_value)
        elif n == "double_value":
            num = Fraction(p.double_value)
        elif n == "string_value":
            num = Fraction(Decimal(p.string_value))
        else:
            raise PkgError("prefixed without number")
        return ("num", num * Fraction(10) ** _prefix_exp(p.prefix))
    return ("none", None)


def expand_target(t, widths):
    """ConnectionTarget -> list of (signal, bit), most significant first (netlister order)."""
    w = t.WhichOneof("stype")
    if w == "sig":
        if t.sig not in widths:
            raise PkgError("connection to undeclared signal %r" % t.sig)
        return [(t.sig, k) for k in reversed(range(widths[t.sig]))]
    if w == "slice":
        s = t.slice
        if s.signal not in widths:
            raise PkgError("slice of undeclared signal %r" % s.signal)
        if not (0 <= s.bot <= s.top < widths[s.signal]):
            raise PkgError("slice %s[%d:%d] outside width %d" % (s.signal, s.top, s.bot, widths[s.signal]))
        return [(s.signal, k) for k in reversed(range(s.bot, s.top + 1))]
    if w == "concat":
        out = []
        if not len(t.concat.parts):
            raise PkgError("empty concat")
        for p in t.concat.parts:
            out.extend(expand_target(p, widths))
        return out
    raise PkgError("empty connection target")


def target_kinds(t, acc=None):
    acc = set() if acc is None else acc
    w = t.WhichOneof("stype")
    acc.add(w)
    if w == "concat":
        for p in t.concat.parts:
            target_kinds(p, acc)
    return acc


def prim_ports(domain, name):
    """Port lists of the primitives an instance may refer to: vlsir.primitives as declared by
    vlsirtools.primitives, hdl21.primitives physical primitives from Hdl21's own declarations."""
    if domain == "vlsir.primitives":
        import vlsirtools.primitives as vp
        for em in vp.package.ext_modules if hasattr(vp, "package") else []:
            if em.name.name == name:
                sigw = {s.name: s.width for s in em.signals}
                return [(p.signal, sigw.get(p.signal, 1)) for p in em.ports]
        return None
    if domain == "hdl21.primitives":
        import hdl21.primitives as hp
        prim = getattr(hp, name, None)
        if prim is None or not hasattr(prim, "port_list"):
            return None
        return [(p.name, p.width) for p in prim.port_list]
    return None


def index(pkg):
    mods = {}
    for m in pkg.modules:
        mods.setdefault(m.name, m)
    exts = {}
    for e in pkg.ext_modules:
        exts.setdefault((e.name.domain, e.name.name), e)
    return mods, exts


def target_ports(pkg_index, ref):
    """Reference -> ordered [(portname, width)] or None when unknown"""
    mods, exts = pkg_index
    w = ref.WhichOneof("to")
    if w == "local":
        m = mods.get(ref.local)
        if m is None:
            return None
        sigw = {s.name: s.width for s in m.signals}
        return [(p.signal, sigw.get(p.signal)) for p in m.ports]
    if w == "external":
        key = (ref.external.domain, ref.external.name)
        if key in exts:
            e = exts[key]
            sigw = {s.name: s.width for s in e.signals}
            return [(p.signal, sigw.get(p.signal)) for p in e.ports]
        return prim_ports(*key)
    return None


def flatten(pkg, top_name=None, tag_params=None):
    """Package -> flat circuit (same shape as model.flatten).  `tag_params` maps an external cell
    name to the parameter whose value is the device's tag (default: parameter `tag`)."""
    idx = index(pkg)
    mods, exts = idx
    if top_name is None:
        top_name = pkg.modules[-1].name
    if top_name not in mods:
        raise PkgError("no module %r in package" % top_name)
    devices = []
    tag_params = tag_params or {}

    def walk(mname, path, binding, depth=0):
        # binding: (port signal, bit) -> parent net
        if depth > 40:
            raise PkgError("module recursion")
        m = mods[mname]
        widths = {}
        for s in m.signals:
            if s.name in widths:
                raise PkgError("duplicate signal %r in %s" % (s.name, mname))
            widths[s.name] = s.width

        def net(sig, bit):
            return binding.get((sig, bit), (path, sig, bit))

        for inst in m.instances:
            tports = target_ports(idx, inst.module)
            if tports is None:
                raise PkgError("instance %s of unknown target" % inst.name)
            conns = {}
            for c in inst.connections:
                if c.portname in conns:
                    raise PkgError("port %s connected twice on %s" % (c.portname, inst.name))
                conns[c.portname] = c.target
            if set(conns) != {p for p, _ in tports}:
                raise PkgError("instance %s connects %s, target has %s" % (inst.name, sorted(conns), sorted(p for p, _ in tports)))
            sub = path + (inst.name,)
            term = {}
            for pname, w in tports:
                bits = expand_target(conns[pname], widths)
                if len(bits) != w:
                    raise PkgError("connection of width %d to port %s.%s of width %s" % (len(bits), inst.name, pname, w))
                # bits are MSB first; store LSB first
                term[pname] = [net(s, b) for s, b in reversed(bits)]
            if inst.module.WhichOneof("to") == "local":
                child_binding = {}
                for pname, w in tports:
                    for k in range(w):
                        child_binding[(pname, k)] = term[pname][k]
                walk(inst.module.local, sub, child_binding, depth + 1)
            else:
                dom, nm = inst.module.external.domain, inst.module.external.name
                params = {p.name: param_value(p.value) for p in inst.parameters}
                if dom in ("vlsir.primitives", "hdl21.primitives"):
                    cell = "prim:" + nm
                else:
                    cell = "ext:" + nm + ("@" + dom if dom != "verif" else "")
                tagname = tag_params.get(cell, "tag")
                tv = params.get(tagname)
                tag = None
                if tv is not None and tv[0] == "num" and tv[1].denominator == 1:
                    tag = int(tv[1])
                elif tv is not None:
                    tag = tv
                devices.append({"cell": cell, "params": tag, "terms": term, "path": sub, "all_params": params})

    walk(top_name, (), {})
    top = mods[top_name]
    sigw = {s.name: s.width for s in top.signals}
    ports = {}
    for p in top.ports:
        if p.signal not in sigw:
            raise PkgError("port %r names no signal" % p.signal)
        ports[p.signal] = [((), p.signal, k) for k in range(sigw[p.signal])]
    return {"devices": devices, "ports": ports}


# ---------------------------------------------------------------------------
# closure checker (C06)


def closure_errors(pkg):
    """Return a list of (kind, text) closure violations of `pkg` (empty = closed and consistent)."""
    errs = []
    seen_mods = {}
    ext_keys = set()
    for e in pkg.ext_modules:
        key = (e.name.domain, e.name.name)
        if key in ext_keys:
            errs.append(("dup_ext_module", "external module %s declared twice" % (key,)))
        ext_keys.add(key)
        sn = [s.name for s in e.signals]
        if len(set(sn)) != len(sn):
            errs.append(("ext_dup_signal", "external module %s has duplicate signals" % (key,)))
        for p in e.ports:
            if p.signal not in sn:
                errs.append(("ext_port_no_signal", "external module %s port %s names no signal" % (key, p.signal)))
    idx = index(pkg)
    for m in pkg.modules:
        if not m.name:
            errs.append(("unnamed_module", "module without a name"))
        if m.name in seen_mods:
            errs.append(("dup_module", "module name %r used twice" % m.name))
        widths = {}
        for s in m.signals:
            if s.name in widths:
                errs.append(("dup_signal", "%s: signal %r declared twice" % (m.name, s.name)))
            if s.width < 1:
                errs.append(("bad_width", "%s: signal %r has width %d" % (m.name, s.name, s.width)))
            widths[s.name] = s.width
        pn = []
        for p in m.ports:
            if p.signal not in widths:
                errs.append(("port_no_signal", "%s: port %r names no declared signal" % (m.name, p.signal)))
            pn.append(p.signal)
        if len(set(pn)) != len(pn):
            errs.append(("dup_port", "%s: duplicate port" % m.name))
        inames = [i.name for i in m.instances]
        if len(set(inames)) != len(inames):
            errs.append(("dup_instance", "%s: duplicate instance name among %s" % (m.name, inames)))
        for inst in m.instances:
            w = inst.module.WhichOneof("to")
            if w == "local":
                if inst.module.local not in seen_mods:
                    errs.append(("use_before_def", "%s: instance %s refers to module %r not defined earlier" % (
                        m.name, inst.name, inst.module.local)))
                    continue
            elif w == "external":
                key = (inst.module.external.domain, inst.module.external.name)
                if key not in ext_keys and prim_ports(*key) is None:
                    errs.append(("unknown_external", "%s: instance %s refers to undeclared external %s" % (m.name, inst.name, key)))
                    continue
            else:
                errs.append(("no_target", "%s: instance %s has no target" % (m.name, inst.name)))
                continue
            tports = target_ports(idx, inst.module)
            if tports is None:
                errs.append(("unknown_target", "%s: instance %s target unresolved" % (m.name, inst.name)))
                continue
            cn = [c.portname for c in inst.connections]
            if len(set(cn)) != len(cn):
                errs.append(("dup_conn", "%s: instance %s connects a port twice: %s" % (m.name, inst.name, cn)))
            tp = dict(tports)
            if set(cn) != set(tp):
                errs.append(("port_set_mismatch", "%s: instance %s connects %s but target has ports %s" % (
                    m.name, inst.name, sorted(cn), sorted(tp))))
            for c in inst.connections:
                try:
                    bits = expand_target(c.target, widths)
                except PkgError as e:
                    errs.append(("bad_target", "%s: instance %s port %s: %s" % (m.name, inst.name, c.portname, e)))
                    continue
                if c.portname in tp and tp[c.portname] is not None and len(bits) != tp[c.portname]:
                    errs.append(("width_drift", "%s: instance %s port %s has width %s, connection has %d" % (
                        m.name, inst.name, c.portname, tp[c.portname], len(bits))))
        seen_mods[m.name] = m
    return errs
