"""Bounded structural shrinking of design specs (own shrinker: works on the spec, not on Hypothesis' byte stream).

`pred(spec) -> bool` must be True for the original and says "still shows the same failure"."""
import copy
from . import model


def _width_of(spec, midx, e):
    me = object.__new__(model.ModuleEval)
    m = spec["modules"][midx]
    me.spec, me.midx, me.m = spec, midx, m
    me.sigs = {s[0]: s[1] for s in m["sigs"]}
    me.buns = {b[0]: b[1] for b in m["bundles"]}
    me.insts = {i["name"]: i for i in m["insts"]}
    me.unions, me.noconn_ports, me.referenced_ports, me.connected = [], set(), set(), {}
    v = me.eval(e)
    if isinstance(v, model.BundleVal):
        return None
    return len(v)


def _subexprs(e, path=()):
    """Yield (path, subexpr) for every expression node (paths index into nested lists)."""
    yield path, e
    t = e[0]
    if t == "slice":
        yield from _subexprs(e[1], path + (1,))
    elif t == "cat":
        for i, p in enumerate(e[1]):
            yield from _subexprs(p, path + (1, i))
    elif t == "bref":
        pass
    elif t == "anon":
        for i, (mem, sub) in enumerate(e[1]):
            yield from _subexprs(sub, path + (1, i, 1))


def _set(e, path, new):
    if not path:
        return new
    e = list(e)
    cur = e
    for p in path[:-1]:
        cur[p] = list(cur[p])
        cur = cur[p]
    cur[path[-1]] = new
    return e


def candidates(spec):
    """Yield reduced copies of spec, most aggressive first."""
    nm = len(spec["modules"])
    # lower the top
    for k in range(nm):
        if k != spec["top"]:
            s = copy.deepcopy(spec); s["top"] = k
            yield s
    # drop modules above top that are unused (just truncate list)
    if spec["top"] < nm - 1:
        s = copy.deepcopy(spec); s["modules"] = s["modules"][:spec["top"] + 1]
        yield s
    for mi, m in enumerate(spec["modules"]):
        # remove instances
        for ii in range(len(m["insts"])):
            s = copy.deepcopy(spec); del s["modules"][mi]["insts"][ii]
            yield s
        for ii, inst in enumerate(m["insts"]):
            if inst.get("kind", "inst") != "inst":
                s = copy.deepcopy(spec); i2 = s["modules"][mi]["insts"][ii]
                i2["kind"] = "inst"; i2.pop("n", None); i2.pop("via", None)
                yield s
            if inst.get("kind") == "array" and inst["n"] > 1:
                s = copy.deepcopy(spec); s["modules"][mi]["insts"][ii]["n"] = inst["n"] - 1
                yield s
            if inst["of"][0] == "mod":
                # retarget to a leaf cell is not width-safe; skip
                pass
            for ci, (pname, e) in enumerate(inst["conns"]):
                for path, sub in _subexprs(e):
                    if sub[0] in ("sig", "nc", "bun"):
                        continue
                    try:
                        w = _width_of(spec, mi, sub)
                    except Exception:
                        continue
                    if w is None:
                        continue
                    s = copy.deepcopy(spec)
                    m2 = s["modules"][mi]
                    name = "r%d" % len(m2["sigs"])
                    m2["sigs"].append([name, w, "sig"])
                    m2["insts"][ii]["conns"][ci][1] = _set(m2["insts"][ii]["conns"][ci][1], path, ["sig", name])
                    yield s
                if e[0] == "cat":
                    for pi in range(len(e[1])):
                        pass
        for key, val in (("style", "proc"), ("connstyle", "call"), ("late", False)):
            if m.get(key) not in (None, val):
                s = copy.deepcopy(spec); s["modules"][mi][key] = val
                yield s
        # unused signals / bundles
        used = repr(m["insts"])
        for si, sg in enumerate(m["sigs"]):
            if ("'%s'" % sg[0]) not in used:
                s = copy.deepcopy(spec); del s["modules"][mi]["sigs"][si]
                yield s
            elif sg[1] > 1 and False:
                pass
        for bi, b in enumerate(m["bundles"]):
            if ("'%s'" % b[0]) not in used:
                s = copy.deepcopy(spec); del s["modules"][mi]["bundles"][bi]
                yield s
            if b[3]:
                s = copy.deepcopy(spec); s["modules"][mi]["bundles"][bi][3] = False
                yield s
            if len(b) > 4 and b[4] is not None:
                s = copy.deepcopy(spec); s["modules"][mi]["bundles"][bi][4] = None
                yield s


def shrink(spec, pred, budget=200):
    spec = copy.deepcopy(spec)
    spec.pop("features", None)
    evals = 0
    improved = True
    while improved and evals < budget:
        improved = False
        for cand in candidates(spec):
            if evals >= budget:
                break
            evals += 1
            try:
                ok = pred(cand)
            except Exception:
                ok = False
            if ok:
                spec = cand
                improved = True
                break
    return spec
