"""Flat-circuit comparison up to isomorphism.

Devices are coloured by (cell, tag), nets by the set of top-level (port name, bit) labels they carry,
edges by (terminal name, bit).  Colour refinement (1-WL on the device/net bipartite graph) is run on
both circuits jointly; residual symmetric classes (array / pair elements wired identically) are
resolved by individualise-and-refine with a node budget.  Budget exhaustion is 'inconclusive'."""
from collections import defaultdict


class Graph:
    def __init__(self, flat, use_port_names=True):
        self.dev = []  # list of (colour, [(term, bit, netindex)])
        nets = {}
        self.net_lab = []

        def nid(n):
            if n not in nets:
                nets[n] = len(nets)
                self.net_lab.append([])
            return nets[n]

        for d in flat["devices"]:
            edges = []
            for t in sorted(d["terms"]):
                for k, n in enumerate(d["terms"][t]):
                    edges.append((t, k, nid(n)))
            self.dev.append(((d["cell"], repr(d["params"])), edges))
        for pi, (pname, bits) in enumerate(flat["ports"].items()):
            for k, n in enumerate(bits):
                self.net_lab[nid(n)].append((pname if use_port_names else pi, k))
        self.nnets = len(nets)
        self.net_edges = [[] for _ in range(self.nnets)]
        for di, (_, edges) in enumerate(self.dev):
            for t, k, n in edges:
                self.net_edges[n].append((t, k, di))


def _refine(g, dcol, ncol):
    """One round; returns new signature lists."""
    nd = [(dcol[i], tuple((t, k, ncol[n]) for t, k, n in g.dev[i][1])) for i in range(len(g.dev))]
    nn = [(ncol[j], tuple(sorted((t, k, dcol[d]) for t, k, d in g.net_edges[j]))) for j in range(g.nnets)]
    return nd, nn


def _joint_refine(g1, g2, d1, n1, d2, n2):
    """Refine both graphs with a shared colour numbering until stable. Returns colours or None if histograms differ."""
    while True:
        s1d, s1n = _refine(g1, d1, n1)
        s2d, s2n = _refine(g2, d2, n2)
        dmap = {s: i for i, s in enumerate(sorted(set(s1d) | set(s2d), key=repr))}
        nmap = {s: i for i, s in enumerate(sorted(set(s1n) | set(s2n), key=repr))}
        nd1 = [dmap[s] for s in s1d]; nd2 = [dmap[s] for s in s2d]
        nn1 = [nmap[s] for s in s1n]; nn2 = [nmap[s] for s in s2n]
        if sorted(nd1) != sorted(nd2) or sorted(nn1) != sorted(nn2):
            return None
        stable = (len(set(nd1)) == len(set(d1)) and len(set(nn1)) == len(set(n1)))
        d1, n1, d2, n2 = nd1, nn1, nd2, nn2
        if stable:
            return d1, n1, d2, n2


def _initial(g1, g2):
    dsig1 = [c for c, _ in g1.dev]; dsig2 = [c for c, _ in g2.dev]
    nsig1 = [tuple(sorted(l, key=repr)) for l in g1.net_lab]; nsig2 = [tuple(sorted(l, key=repr)) for l in g2.net_lab]
    dmap = {s: i for i, s in enumerate(sorted(set(dsig1) | set(dsig2), key=repr))}
    nmap = {s: i for i, s in enumerate(sorted(set(nsig1) | set(nsig2), key=repr))}
    return [dmap[s] for s in dsig1], [nmap[s] for s in nsig1], [dmap[s] for s in dsig2], [nmap[s] for s in nsig2]


def norm_path(path):
    """Hierarchical path of a device as a tuple of instance names, for both readers' conventions
    (model: ((inst, elem), ...) with elem None | k | 'p'/'n'; package: (instname, ...))."""
    out = []
    for seg in path:
        if isinstance(seg, tuple):
            out.append(seg[0] if seg[1] is None else "%s_%s" % (seg[0], seg[1]))
        else:
            out.append(seg)
    return tuple(out)


def verify_by_paths(f1, f2, use_port_names=True):
    """Try the device bijection suggested by hierarchical instance paths (a hint only: element names are
    the elaborator's to choose).  True iff that bijection is an isomorphism; False means 'hint unusable'."""
    d2 = {}
    for d in f2["devices"]:
        k = norm_path(d.get("path", ()))
        if k in d2:
            return False
        d2[k] = d
    if len(d2) != len(f1["devices"]):
        return False
    fwd, bwd = {}, {}

    def bind(a, b):
        if fwd.setdefault(a, b) != b or bwd.setdefault(b, a) != a:
            return False
        return True

    for d in f1["devices"]:
        o = d2.get(norm_path(d.get("path", ())))
        if o is None or o["cell"] != d["cell"] or repr(o["params"]) != repr(d["params"]):
            return False
        if set(o["terms"]) != set(d["terms"]):
            return False
        for t, bits in d["terms"].items():
            if len(bits) != len(o["terms"][t]):
                return False
            for a, b in zip(bits, o["terms"][t]):
                if not bind(a, b):
                    return False
    if use_port_names:
        if set(f1["ports"]) != set(f2["ports"]):
            return False
        for p, bits in f1["ports"].items():
            if len(bits) != len(f2["ports"][p]):
                return False
            for a, b in zip(bits, f2["ports"][p]):
                if not bind(a, b):
                    return False
    return True


def compare(f1, f2, budget=60, use_port_names=True):
    """-> ("iso", None) | ("diff", explanation) | ("inconclusive", why)"""
    if verify_by_paths(f1, f2, use_port_names):
        return "iso", None
    g1, g2 = Graph(f1, use_port_names), Graph(f2, use_port_names)
    if len(g1.dev) != len(g2.dev):
        return "diff", "device count %d vs %d" % (len(g1.dev), len(g2.dev))
    c1 = sorted(repr(c) for c, _ in g1.dev); c2 = sorted(repr(c) for c, _ in g2.dev)
    if c1 != c2:
        only1 = [c for c in c1 if c not in c2][:3]; only2 = [c for c in c2 if c not in c1][:3]
        return "diff", "device multiset differs: only in first %s, only in second %s" % (only1, only2)
    if set(f1["ports"]) != set(f2["ports"]) and use_port_names:
        return "diff", "top-level ports differ: %s vs %s" % (sorted(f1["ports"]), sorted(f2["ports"]))
    for p in f1["ports"]:
        if use_port_names and len(f1["ports"][p]) != len(f2["ports"][p]):
            return "diff", "port %s width %d vs %d" % (p, len(f1["ports"][p]), len(f2["ports"][p]))
    if g1.nnets != g2.nnets:
        return "diff", "net count %d vs %d (%s)" % (g1.nnets, g2.nnets, _explain(f1, f2))
    cols = _initial(g1, g2)
    if sorted(cols[1]) != sorted(cols[3]):
        return "diff", "port bits are grouped onto nets differently (%s)" % _explain(f1, f2)
    state = {"budget": budget}

    def solve(cols):
        r = _joint_refine(g1, g2, *cols)
        if r is None:
            return False
        d1, n1, d2, n2 = r
        # find a non-singleton class
        cnt = defaultdict(list)
        for i, c in enumerate(d1):
            cnt[("d", c)].append(i)
        for j, c in enumerate(n1):
            cnt[("n", c)].append(j)
        multi = [(len(v), k) for k, v in cnt.items() if len(v) > 1]
        if not multi:
            return True
        _, key = min(multi, key=lambda x: (x[0], repr(x[1])))
        kind, c = key
        pick = cnt[key][0]
        cands = [i for i, cc in enumerate(d2 if kind == "d" else n2) if cc == c]
        fresh = max(max(d1 + d2, default=0), max(n1 + n2, default=0)) + 1
        for cand in cands:
            state["budget"] -= 1
            if state["budget"] < 0:
                raise TimeoutError
            if kind == "d":
                nd1 = list(d1); nd2 = list(d2); nd1[pick] = fresh; nd2[cand] = fresh
                if solve((nd1, n1, nd2, n2)):
                    return True
            else:
                nn1 = list(n1); nn2 = list(n2); nn1[pick] = fresh; nn2[cand] = fresh
                if solve((d1, nn1, d2, nn2)):
                    return True
        return False

    try:
        ok = solve(cols)
    except TimeoutError:
        return "inconclusive", "individualisation budget exhausted"
    if ok:
        return "iso", None
    return "diff", "net partition differs (%s)" % _explain(f1, f2)


def _explain(f1, f2):
    """Best-effort human explanation: match devices by (cell, params, path-free order) when unique."""
    def keyed(f):
        out = defaultdict(list)
        for d in f["devices"]:
            out[(d["cell"], repr(d["params"]))].append(d)
        return out
    k1, k2 = keyed(f1), keyed(f2)
    # build pair relation 'same net' over terminals of uniquely coloured devices and top ports
    def relation(f, k):
        tn = {}
        for key, ds in k.items():
            if len(ds) == 1:
                for t, bits in ds[0]["terms"].items():
                    for i, n in enumerate(bits):
                        tn[(key, t, i)] = n
        for p, bits in f["ports"].items():
            for i, n in enumerate(bits):
                tn[("port", p, i)] = n
        return tn
    r1, r2 = relation(f1, k1), relation(f2, k2)
    common = sorted(set(r1) & set(r2), key=repr)
    inv1 = defaultdict(list); inv2 = defaultdict(list)
    for x in common:
        inv1[r1[x]].append(x); inv2[r2[x]].append(x)
    g1 = {x: tuple(inv1[r1[x]]) for x in common}
    g2 = {x: tuple(inv2[r2[x]]) for x in common}
    for x in common:
        if g1[x] != g2[x]:
            a = [y for y in g1[x] if y not in g2[x]]
            b = [y for y in g2[x] if y not in g1[x]]
            return "terminal %s shares a net with %s only in the first and with %s only in the second" % (
                _fmt(x), [_fmt(y) for y in a[:3]], [_fmt(y) for y in b[:3]])
    return "no difference among uniquely identifiable terminals; differs within symmetric devices"


def _fmt(x):
    if x[0] == "port":
        return "port %s[%d]" % (x[1], x[2])
    return "%s#%s.%s[%d]" % (x[0][0], x[0][1], x[1], x[2])
