"""Reference interpreter: design spec -> flat circuit.

A direct transcription of the documented meaning of Hdl21 designs; it shares no code with
Hdl21 and runs no elaboration passes.  A spec it cannot type is *ill-formed* (ModelError).

Flat circuit = {"devices": [{"cell", "params", "terms": {name: [net,...]}, "path"}],
                "ports": {name: [net,...]}}    (bit lists are LSB first)
"""
from collections import OrderedDict


class ModelError(Exception):
    """The spec is ill-formed by the documented rules (width mismatch, missing member, ...)."""


# kind -> (exported cell name, exported domain, ports [(name,width)], tag parameter)
PRIMS = {
    "R": ("resistor", "vlsir.primitives", [("p", 1), ("n", 1)], "r"),
    "C": ("capacitor", "vlsir.primitives", [("p", 1), ("n", 1)], "c"),
    "L": ("inductor", "vlsir.primitives", [("p", 1), ("n", 1)], "l"),
    "Vcvs": ("vcvs", "vlsir.primitives", [("p", 1), ("n", 1), ("cp", 1), ("cn", 1)], "gain"),
    "Mos": ("Mos", "hdl21.primitives", [("d", 1), ("g", 1), ("s", 1), ("b", 1)], "w"),
    "Bipolar": ("Bipolar", "hdl21.primitives", [("c", 1), ("b", 1), ("e", 1)], "w"),
    "Diode": ("Diode", "hdl21.primitives", [("p", 1), ("n", 1)], "w"),
    "Res3": ("ThreeTerminalResistor", "hdl21.primitives", [("p", 1), ("n", 1), ("b", 1)], "w"),
}


class UF:
    def __init__(self):
        self.p = {}

    def find(self, x):
        p = self.p
        if x not in p:
            p[x] = x
            return x
        r = x
        while p[r] != r:
            r = p[r]
        while p[x] != r:
            p[x], x = r, p[x]
        return r

    def union(self, a, b):
        ra, rb = self.find(a), self.find(b)
        if ra != rb:
            self.p[rb] = ra


# ---------------------------------------------------------------------------
# bundle definitions


def bundle_leaves(spec, bidx, _depth=0):
    """[(path tuple, width, kind, flips on path below the instance, role-of-containing-instance)]"""
    if _depth > 8:
        raise ModelError("bundle nesting too deep / recursive")
    b = spec["bundles"][bidx]
    out = []
    for name, width, kind in b["sigs"]:
        out.append(((name,), width, kind, 0, None))
    for sub in b["subs"]:
        name, sidx, flipped = sub[0], sub[1], sub[2]
        role = sub[4] if len(sub) > 4 else None
        for path, width, kind, flips, r in bundle_leaves(spec, sidx, _depth + 1):
            out.append(((name,) + path, width, kind, flips + (1 if flipped else 0),
                        r if len(path) > 1 else role))
    return out


def cell_ports(spec, cidx):
    c = spec["cells"][cidx]
    if c["kind"] == "ext":
        return [(p[0], p[1]) for p in c["ports"]]
    return list(PRIMS[c["prim"]][2])


def module_iface(spec, midx):
    """Ordered interface: [("sig", name, width) | ("bun", name, bidx)]"""
    m = spec["modules"][midx]
    out = []
    for name, width, d in m["sigs"]:
        if d != "sig":
            out.append(("sig", name, width))
    for b in m["bundles"]:
        if b[2]:
            out.append(("bun", b[0], b[1]))
    return out


def target_iface(spec, of):
    if of[0] == "cell":
        return [("sig", n, w) for n, w in cell_ports(spec, of[1])]
    return module_iface(spec, of[1])


def flat_port_name(bname, path):
    return bname + "_" + "_".join(path)


# ---------------------------------------------------------------------------


class BundleVal(dict):
    """path tuple -> bit list"""


class ModuleEval:
    """Evaluate one module definition to local unions + instance records."""

    def __init__(self, spec, midx):
        self.spec = spec
        self.midx = midx
        self.m = spec["modules"][midx]
        self.unions = []  # pairs of local bit ids
        self.sigs = {s[0]: s[1] for s in self.m["sigs"]}
        self.buns = {b[0]: b[1] for b in self.m["bundles"]}
        self.insts = OrderedDict((i["name"], i) for i in self.m["insts"])
        if len(self.insts) != len(self.m["insts"]):
            raise ModelError("duplicate instance name")
        names = list(self.sigs) + list(self.buns) + list(self.insts)
        if len(set(names)) != len(names):
            raise ModelError("duplicate attribute name in module %s" % self.m["name"])
        self.noconn_ports = set()  # (inst, port)
        self.referenced_ports = set()
        self.connected = {}  # inst -> set(port)
        self.evaluate()

    # -- expression evaluation ------------------------------------------
    def elems(self, inst):
        k = inst.get("kind", "inst")
        if k == "inst":
            return [None]
        if k == "array":
            if inst["n"] < 1:
                raise ModelError("array size < 1")
            return list(range(inst["n"]))
        if k == "pair":
            # h.Pair (members p, n of h.Diff), or an InstanceBundleType over a flat bundle with the listed members
            return list(inst.get("members") or ["p", "n"])
        raise ModelError("bad instance kind")

    def port_bits(self, iname, elem, pname, width):
        return [("p", iname, elem, pname, k) for k in range(width)]

    def eval(self, e):
        t = e[0]
        if t == "sig":
            if e[1] not in self.sigs:
                raise ModelError("no signal %s" % e[1])
            return [("s", e[1], k) for k in range(self.sigs[e[1]])]
        if t == "slice":
            base = self.eval(e[1])
            if isinstance(base, BundleVal):
                raise ModelError("slice of bundle")
            idx = e[2]
            if isinstance(idx, int):
                if not (-len(base) <= idx < len(base)):
                    raise ModelError("index out of range")
                return [base[idx]]
            sl = slice(*idx)
            if sl.step == 0:
                raise ModelError("zero step")
            bits = base[sl]
            if not bits:
                raise ModelError("empty slice")
            for bound in (sl.start, sl.stop):
                if bound is not None and not (-len(base) <= bound <= len(base)):
                    raise ModelError("slice bound out of range")
            return bits
        if t == "cat":
            out = []
            if not e[1]:
                raise ModelError("empty concat")
            for p in e[1]:
                v = self.eval(p)
                if isinstance(v, BundleVal):
                    raise ModelError("bundle in concat")
                out.extend(v)
            return out
        if t == "pref":
            iname, pname = e[1], e[2]
            if iname not in self.insts:
                raise ModelError("port reference to unknown instance %s" % iname)
            inst = self.insts[iname]
            if inst.get("kind", "inst") == "pair":
                raise ModelError("port reference into a pair")
            iface = {p[1]: p for p in target_iface(self.spec, inst["of"])}
            if pname not in iface:
                raise ModelError("port reference to unknown port %s.%s" % (iname, pname))
            self.referenced_ports.add((iname, pname))
            p = iface[pname]
            elems = self.elems(inst)
            if p[0] == "sig":
                if inst.get("kind") == "array":
                    # a reference to an array port denotes the connection made to it (one bit list shared
                    # by the elements); only meaningful for broadcast ports - enforced by the generator
                    return self.port_bits(iname, "*", pname, p[2])
                return self.port_bits(iname, None, pname, p[2])
            bv = BundleVal()
            for path, width, *_ in bundle_leaves(self.spec, p[2]):
                bv[path] = self.port_bits(iname, None if inst.get("kind", "inst") == "inst" else "*", (pname, path), width)
            return bv
        if t == "bun":
            if e[1] not in self.buns:
                raise ModelError("no bundle instance %s" % e[1])
            bv = BundleVal()
            for path, width, *_ in bundle_leaves(self.spec, self.buns[e[1]]):
                bv[path] = [("b", e[1], path, k) for k in range(width)]
            return bv
        if t == "bref":
            base = self.eval(e[1])
            if not isinstance(base, BundleVal):
                raise ModelError("member access on non-bundle")
            mem = e[2]
            if (mem,) in base:
                return base[(mem,)]
            sub = BundleVal({p[1:]: v for p, v in base.items() if p[0] == mem and len(p) > 1})
            if not sub:
                raise ModelError("no bundle member %s" % mem)
            return sub
        if t == "anon":
            bv = BundleVal()
            seen = set()
            for mem, sube in e[1]:
                if mem in seen:
                    raise ModelError("duplicate anonymous-bundle member")
                seen.add(mem)
                if sube[0] == "nc":
                    raise ModelError("no-connect inside anonymous bundle")
                v = self.eval(sube)
                if isinstance(v, BundleVal):
                    for p, bits in v.items():
                        bv[(mem,) + p] = bits
                else:
                    bv[(mem,)] = v
            return bv
        if t == "nc":
            raise ModelError("no-connect used inside an expression")
        if t in ("orphan", "foreign", "orphan_bun", "foreign_bun", "pref_orphan", "pref_foreign", "evicted", "pref_evicted", "child_slice"):
            raise ModelError("object owned by another module or by none (%s)" % t)
        raise ModelError("unknown expression %r" % (t,))

    # -- connections ----------------------------------------------------
    def union_bits(self, a, b):
        if len(a) != len(b):
            raise ModelError("width mismatch %d vs %d" % (len(a), len(b)))
        for x, y in zip(a, b):
            self.unions.append((x, y))

    def connect(self, inst, pname, e):
        iname = inst["name"]
        iface = {p[1]: p for p in target_iface(self.spec, inst["of"])}
        if pname not in iface:
            raise ModelError("connection to non-existent port %s.%s" % (iname, pname))
        p = iface[pname]
        kind = inst.get("kind", "inst")
        elems = self.elems(inst)
        self.connected.setdefault(iname, {})[pname] = e
        if e[0] == "nc":
            self.noconn_ports.add((iname, pname))
            return
        v = self.eval(e)
        if p[0] == "sig":
            w = p[2]
            if kind == "pair" and isinstance(v, BundleVal):
                if set(v.keys()) != {(el,) for el in elems}:
                    raise ModelError("pair connection needs exactly members %s" % "/".join(elems))
                for el in elems:
                    self.union_bits(self.port_bits(iname, el, pname, w), v[(el,)])
                return
            if isinstance(v, BundleVal):
                raise ModelError("bundle connected to scalar port %s.%s" % (iname, pname))
            if kind == "array":
                n = inst["n"]
                star = self.port_bits(iname, "*", pname, len(v))
                if len(v) == w:
                    for el in elems:
                        self.union_bits(self.port_bits(iname, el, pname, w), v)
                    self.union_bits(self.port_bits(iname, "*", pname, w), v)
                elif len(v) == n * w:
                    for el in elems:
                        self.union_bits(self.port_bits(iname, el, pname, w), v[el * w:(el + 1) * w])
                else:
                    raise ModelError("array connection width %d is neither %d nor %d" % (len(v), w, n * w))
                return
            for el in elems:
                self.union_bits(self.port_bits(iname, el, pname, w), v)
            return
        # bundle-valued port
        if not isinstance(v, BundleVal):
            raise ModelError("scalar connected to bundle port %s.%s" % (iname, pname))
        if kind == "pair":
            raise ModelError("pair of a module with bundle ports")
        leaves = bundle_leaves(self.spec, p[2])
        want = {l[0] for l in leaves}
        if set(v.keys()) != want:
            raise ModelError("bundle members %s do not match port members %s" % (sorted(v.keys()), sorted(want)))
        for path, width, *_ in leaves:
            for el in elems:
                self.union_bits(self.port_bits(iname, el, (pname, path), width), v[path])
            if kind == "array":
                self.union_bits(self.port_bits(iname, "*", (pname, path), width), v[path])

    def final_mapping(self):
        """{inst name: ordered {port: expr}} after replaying the operation history (or the conns lists)."""
        out = {inst["name"]: {} for inst in self.m["insts"]}
        hist = self.m.get("history")
        if hist is None:
            for inst in self.m["insts"]:
                for pname, e in inst["conns"]:
                    out[inst["name"]].pop(pname, None) if False else None
                    out[inst["name"]][pname] = e  # the last connection made to a port wins
            return out
        for iname, pname, e, op in hist:
            if iname not in out:
                raise ModelError("history names unknown instance")
            if op == "mult":
                continue  # the point at which `n * inst` turned the instance into an array: no effect on the mapping
            if op == "disconnect":
                if pname not in out[iname]:
                    raise ModelError("disconnect of unconnected port")
                del out[iname][pname]
            elif op == "replace":
                if pname not in out[iname]:
                    raise ModelError("replace of unconnected port")
                out[iname][pname] = e
            else:
                out[iname][pname] = e
        return out

    def evaluate(self):
        fm = self.final_mapping()
        for inst in self.m["insts"]:
            for pname, e in fm[inst["name"]].items():
                self.connect(inst, pname, e)
        # completeness: every port connected or referenced
        for inst in self.m["insts"]:
            iname = inst["name"]
            for p in target_iface(self.spec, inst["of"]):
                if p[1] in self.connected.get(iname, {}):
                    continue
                if (iname, p[1]) in self.referenced_ports:
                    continue
                raise ModelError("port %s.%s left unconnected" % (iname, p[1]))
        for key in self.noconn_ports:
            if key in self.referenced_ports:
                raise ModelError("no-connected port %s.%s is also referenced" % key)


def check_dag(spec):
    if spec.get("cycle"):
        raise ModelError("circular instantiation")
    n = len(spec["modules"])
    state = {}

    def visit(k):
        if state.get(k) == 1:
            raise ModelError("circular instantiation")
        if state.get(k) == 2:
            return
        state[k] = 1
        for inst in spec["modules"][k]["insts"]:
            if inst["of"][0] == "mod":
                if not (0 <= inst["of"][1] < n):
                    raise ModelError("bad module index")
                visit(inst["of"][1])
        state[k] = 2

    visit(spec["top"])
    names = [spec["modules"][k].get("name") for k in state]
    if any(not nm for nm in names):
        raise ModelError("unnamed module")
    if len(set(names)) != len(names):
        raise ModelError("module name clash")


def device_colour(spec, inst):
    c = spec["cells"][inst["of"][1]]
    if c["kind"] == "ext":
        return ("ext:" + c["name"] + ("@" + c["domain"] if c.get("domain", "verif") != "verif" else ""), inst.get("tag"))
    return ("prim:" + PRIMS[c["prim"]][0], inst.get("tag"))


def flatten(spec, top=None):
    """spec -> flat circuit.  Raises ModelError for ill-formed specs."""
    check_dag(spec)
    top = spec["top"] if top is None else top
    evals = {}
    uf = UF()
    devices = []

    def get(midx):
        if midx not in evals:
            evals[midx] = ModuleEval(spec, midx)
        return evals[midx]

    def inst_module(midx, path):
        me = get(midx)
        for a, b in me.unions:
            uf.union((path, a), (path, b))
        for inst in me.m["insts"]:
            iname = inst["name"]
            for el in me.elems(inst):
                sub = path + ((iname, el),)
                iface = target_iface(spec, inst["of"])
                if inst["of"][0] == "cell":
                    terms = {}
                    for _, pname, w in iface:
                        terms[pname] = [(path, b) for b in me.port_bits(iname, el, pname, w)]
                    devices.append({"cell": device_colour(spec, inst)[0], "params": device_colour(spec, inst)[1],
                                    "terms": terms, "path": sub})
                else:
                    cidx = inst["of"][1]
                    inst_module(cidx, sub)
                    for p in iface:
                        if p[0] == "sig":
                            for k in range(p[2]):
                                uf.union((path, ("p", iname, el, p[1], k)), (sub, ("s", p[1], k)))
                        else:
                            for lpath, width, *_ in bundle_leaves(spec, p[2]):
                                for k in range(width):
                                    uf.union((path, ("p", iname, el, (p[1], lpath), k)), (sub, ("b", p[1], lpath, k)))

    inst_module(top, ())
    ports = OrderedDict()
    for p in module_iface(spec, top):
        if p[0] == "sig":
            ports[p[1]] = [((), ("s", p[1], k)) for k in range(p[2])]
        else:
            for lpath, width, *_ in bundle_leaves(spec, p[2]):
                ports[flat_port_name(p[1], lpath)] = [((), ("b", p[1], lpath, k)) for k in range(width)]
    out_dev = []
    for d in devices:
        out_dev.append({"cell": d["cell"], "params": d["params"], "path": d["path"],
                        "terms": {t: [uf.find(b) for b in bits] for t, bits in d["terms"].items()}})
    return {"devices": out_dev, "ports": {n: [uf.find(b) for b in bits] for n, bits in ports.items()}}
