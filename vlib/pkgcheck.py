"""Package-level acceptance checks shared by C06 / C11: closure, from_proto, vlsirtools netlisters."""
import io
from . import env, pkgread


def has_hdl21_prims(pkg):
    for m in pkg.modules:
        for i in m.instances:
            if i.module.WhichOneof("to") == "external" and i.module.external.domain == "hdl21.primitives":
                return True
    return False


def same_named_ext_modules(pkg):
    """Two declared external modules of one name in different domains: well-formed VLSIR, but netlists have one flat name space
    and the vlsirtools netlisters refuse such a package by design."""
    names = [e.name.name for e in pkg.ext_modules]
    return len(set(names)) != len(names)


def pkg_features(pkg):
    f = set()
    if same_named_ext_modules(pkg):
        f.add("ext_modules_of_one_name_in_two_domains")
    if len(pkg.modules) >= 2:
        f.add("multi_module")
    if len(pkg.ext_modules):
        f.add("ext_module")
    for m in pkg.modules:
        for i in m.instances:
            for c in i.connections:
                f |= {"target_" + k for k in pkgread.target_kinds(c.target)}
            for p in i.parameters:
                w = p.value.WhichOneof("value")
                f.add("param_" + str(w))
        if m.literals:
            f.add("literals")
    if has_hdl21_prims(pkg):
        f.add("hdl21_primitives")
    return f


def check_package(pkg, netlist=True):
    """-> list of (sig, detail)"""
    env.setup_paths()
    import hdl21 as h
    import vlsirtools
    out = []
    for kind, text in pkgread.closure_errors(pkg):
        out.append(("closure:" + kind, text))
    try:
        h.from_proto(pkg)
    except Exception as e:
        out.append(("from_proto_rejects:%s" % type(e).__name__, "from_proto raised %s: %s" % (type(e).__name__, str(e)[-300:])))
    if netlist and not has_hdl21_prims(pkg) and not same_named_ext_modules(pkg):
        for fmt in ("spice", "spectre"):
            try:
                vlsirtools.netlist(pkg=pkg, dest=io.StringIO(), fmt=fmt)
            except Exception as e:
                out.append(("netlister_rejects:%s:%s" % (fmt, type(e).__name__), "vlsirtools %s netlister raised %s: %s" % (fmt, type(e).__name__, str(e)[-300:])))
    return out
