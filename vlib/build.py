"""Builder: design spec -> real Hdl21 objects, through the public API only.

Styles (per module): 'proc' (Module() + add / setattr), 'class' (h.module on a class body),
'gen' (inside an @h.generator).  Connection styles: 'call', 'setattr', 'connect', 'mixed'.
`late`: instances are connected before they are added to the module."""
import json
from . import env
from .model import PRIMS

KEYWORDS = {"name", "of", "conns", "connect", "disconnect", "replace", "portref", "portrefs", "in", "from", "is", "if"}


def _h():
    env.setup_paths()
    import hdl21 as h
    return h


ANON_IDS = set()


class Builder:
    def __init__(self, spec, mutate=None):
        self.h = _h()
        self.spec = spec
        self._cells = {}
        self._bundles = {}
        self._modules = {}
        self._tagparams = None
        self._ibts = {}
        self.ncs = {}
        self.inst_objs = {}  # (midx, iname) -> instance object
        self.mutate = mutate  # optional hook(builder, midx, phase, ctx)
        self.conn_mismatches = []

    # -- leaves --------------------------------------------------------------
    def tagparams(self):
        h = self.h
        if self._tagparams is None:
            @h.paramclass
            class TagParams:
                tag = h.Param(dtype=int, desc="unique device tag", default=0)
            self._tagparams = TagParams
        return self._tagparams

    def port_sig(self, name, width, d):
        h = self.h
        ctor = {"in": h.Input, "out": h.Output, "inout": h.Inout, "port": h.Port, "sig": h.Signal, "plain": h.Signal}[d]
        return ctor(name=name, width=width)

    def cell(self, k):
        h = self.h
        if k not in self._cells:
            c = self.spec["cells"][k]
            if c["kind"] == "ext":
                self._cells[k] = h.ExternalModule(
                    name=c["name"], domain=c.get("domain", "verif"),
                    port_list=[self.port_sig(p[0], p[1], p[2]) for p in c["ports"]],
                    paramtype=self.tagparams())
            else:
                import hdl21.primitives as hp
                cls = {"R": hp.IdealResistor, "C": hp.IdealCapacitor, "L": hp.IdealInductor,
                       "Vcvs": hp.VoltageControlledVoltageSource, "Mos": hp.Mos, "Bipolar": hp.Bipolar,
                       "Diode": hp.Diode, "Res3": hp.ThreeTerminalResistor}[c["prim"]]
                self._cells[k] = cls
        return self._cells[k]

    def cell_call(self, k, tag):
        c = self.spec["cells"][k]
        if c["kind"] == "ext":
            return self.cell(k)(tag=tag)
        return self.cell(k)(**{PRIMS[c["prim"]][3]: tag})

    # -- bundles -------------------------------------------------------------
    def bundle(self, k):
        h = self.h
        if k in self._bundles:
            return self._bundles[k]
        b = self.spec["bundles"][k]
        if b.get("builtin") == "Diff":
            self._bundles[k] = h.Diff
            return h.Diff
        B = h.Bundle(name=b["name"])
        if b.get("roles"):
            from hdl21.role import RoleSet
            B.roles = RoleSet.from_names(["A", "B", "C"])
        for name, width, kind in b["sigs"]:
            if kind in ("in", "out", "inout", "port", "plain"):
                s = self.port_sig(name, width, kind)
            elif kind in ("plain_din", "plain_dout"):
                # not declared as a port (internal visibility), though its direction attribute is set
                from hdl21.signal import PortDir
                s = h.Signal(name=name, width=width, direction=PortDir.INPUT if kind == "plain_din" else PortDir.OUTPUT)
            elif kind in ("inout_role_ab", "port_role_ab"):
                # declared as a port (bidirectional / undirected) AND carrying source and destination roles
                s = (h.Inout if kind == "inout_role_ab" else h.Port)(name=name, width=width, src=self._role(B, b, "A"), dest=self._role(B, b, "B"))
            elif kind == "role_ab":
                s = h.Signal(name=name, width=width, src=self._role(B, b, "A"), dest=self._role(B, b, "B"))
            elif kind == "role_ba":
                s = h.Signal(name=name, width=width, src=self._role(B, b, "B"), dest=self._role(B, b, "A"))
            else:
                raise ValueError(kind)
            B.add(s)
        for sub in b["subs"]:
            name, sidx, flipped = sub[0], sub[1], sub[2]
            via = sub[3] if len(sub) > 3 else "ctor"
            role = sub[4] if len(sub) > 4 else None
            S = self.bundle(sidx)
            kw = {}
            if role is not None and S.roles is not None:
                kw["role"] = self._role(S, self.spec["bundles"][sidx], role)
            bi = self._flip(S, kw, flipped, via)
            B.add(bi, name=name)
        self._bundles[k] = B
        return B

    def bundle_inst(self, binfo):
        h = self.h
        name, bidx, port, flipped = binfo[0], binfo[1], binfo[2], binfo[3]
        role = binfo[4] if len(binfo) > 4 else None
        via = binfo[5] if len(binfo) > 5 else "ctor"
        B = self.bundle(bidx)
        kw = {"port": bool(port)}
        if role is not None and B.roles is not None:
            kw["role"] = self._role(B, self.spec["bundles"][bidx], role)
        return self._flip(B, kw, flipped, via)

    def _role(self, B, bspec, name):
        """The role `name` of bundle B: the RoleSet's own object, or (roles == "fresh") a new, equal Role object each time -
        as roles re-created by RoleSet.from_list or written out literally are"""
        if bspec.get("roles") == "fresh":
            return self.h.Role(name=name)
        return getattr(B.roles, name)

    def _flip(self, B, kw, flipped, via):
        """Create an instance of bundle B whose effective flip state is `flipped`, written as `via` says:
        'ctor' (constructor flag), 'flipped' (h.flipped() of an unflipped instance), or 'c<0|1>f<n>'
        (constructor flag then n applications of h.flipped(); effective = flag xor (n odd))."""
        h = self.h
        if isinstance(via, str) and len(via) == 4 and via[0] == "c" and via[2] == "f":
            bi = B(flipped=(via[1] == "1"), **kw)
            for _ in range(int(via[3])):
                bi = h.flipped(bi)
            return bi
        if via == "mult":
            return (2 * B(flipped=bool(flipped), **kw))[1]  # `a, b = 2 * B(...)`: the copies keep the declaration
        if via == "flipped" and flipped:
            return h.flipped(B(**kw))
        return B(flipped=bool(flipped), **kw)

    # -- modules -------------------------------------------------------------
    def target(self, of, tag):
        if of[0] == "cell":
            return self.cell_call(of[1], tag)
        return self.module(of[1])

    def module(self, k):
        if k in self._modules:
            return self._modules[k]
        m = self.spec["modules"][k]
        style = m.get("style", "proc")
        if style == "gen":
            h = self.h

            @h.paramclass
            class GP:
                k = h.Param(dtype=int, desc="index", default=0)

            builder = self

            def genfunc(params: GP) -> h.Module:
                return builder._build_module(k, "proc")

            genfunc.__name__ = "Gen" + (m.get("name") or "M")
            G = h.generator(genfunc)
            mod = G(k=k)
        else:
            mod = self._build_module(k, style)
        self._modules[k] = mod
        return mod

    def _build_module(self, k, style):
        h = self.h
        m = self.spec["modules"][k]
        objs = {}
        order = []  # (name, object) in declaration order
        for name, width, d in m["sigs"]:
            objs[name] = self.port_sig(None, width, d)
            order.append((name, objs[name]))
        mult_pool = {}
        for binfo in m["bundles"]:
            if len(binfo) > 5 and binfo[5] == "mult":
                # `a, b = 2 * B(...)`: all instances of this module with the same definition / visibility / flip / role come
                # from one multiplication
                key = json.dumps([binfo[1], binfo[2], binfo[3], binfo[4]])
                if not mult_pool.get(key):
                    cnt = sum(1 for b2 in m["bundles"] if len(b2) > 5 and b2[5] == "mult" and json.dumps([b2[1], b2[2], b2[3], b2[4]]) == key)
                    mult_pool[key] = list(cnt * self.bundle_inst(binfo[:5] + ["ctor"]))
                objs[binfo[0]] = mult_pool[key].pop(0)
            elif len(binfo) > 5 and isinstance(binfo[5], str) and binfo[5].startswith("flipof:"):
                objs[binfo[0]] = h.flipped(objs[binfo[5][7:]])  # h.flipped() of a sibling that is itself in use
            else:
                objs[binfo[0]] = self.bundle_inst(binfo)
            order.append((binfo[0], objs[binfo[0]]))
        insts = {}
        for inst in m["insts"]:
            tgt = self.target(inst["of"], inst.get("tag", 0))
            kind = inst.get("kind", "inst")
            if kind == "inst":
                io = h.Instance(of=tgt)
            elif kind == "array":
                if inst.get("via") == "mult_late":
                    # connected first, multiplied afterwards: `m.arr = n * Cell(a=x, ...)`; every other template already
                    # carries the name its array will be added under
                    io = h.Instance(of=tgt, name=inst["name"]) if inst.get("tag", 0) % 2 == 0 else h.Instance(of=tgt)
                elif inst.get("via") == "mult":
                    io = inst["n"] * h.Instance(of=tgt)
                else:
                    io = h.InstanceArray(of=tgt, n=inst["n"])
            elif kind == "pair":
                if inst.get("members"):
                    # an InstanceBundleType of the design's own, over a flat bundle with these members
                    key = tuple(inst["members"])
                    if key not in self._ibts:
                        IB = h.Bundle(name="IB_" + "_".join(key))
                        for mn in key:
                            IB.add(h.Signal(name=mn))
                        self._ibts[key] = h.InstanceBundleType(name="Group_" + "_".join(key), bundle=IB)
                    io = self._ibts[key](tgt)
                else:
                    io = h.Pair(tgt)
            else:
                raise ValueError(kind)
            insts[inst["name"]] = io
            self.inst_objs[(k, inst["name"])] = io
        late = bool(m.get("late")) or style == "class"
        mult_late = {i["name"]: i["n"] for i in m["insts"] if i.get("kind") == "array" and i.get("via") == "mult_late"}
        multiplied = set()
        mod = None
        if style == "proc":
            if m.get("bare"):
                scope = {"h": h, "NAME": m.get("name")}
                exec("mod = h.Module(name=NAME)", scope)
                mod = scope["mod"]
            else:
                mod = h.Module(name=m.get("name"))
            for i, (name, o) in enumerate(order):
                if i % 2 == 0 or name.startswith("_"):  # (an underscore name given by setattr would be a private Python attribute)
                    mod.add(o, name=name)
                else:
                    setattr(mod, name, o)
            if not late:
                for name, io in insts.items():
                    if name not in mult_late:
                        mod.add(io, name=name)
        ctx = {"objs": objs, "insts": insts, "mod": mod, "k": k}
        if self.mutate:
            self.mutate(self, k, "pre_connect", ctx)
        cstyle = m.get("connstyle", "call")
        n = 0
        if m.get("history") is not None:
            running = {name: {} for name in insts}
            for step, (iname, pname, e, op) in enumerate(m["history"]):
                io = insts[iname]
                if op == "mult":
                    insts[iname] = mult_late[iname] * io  # from here on the history addresses the array
                    multiplied.add(iname)
                    self.inst_objs[(k, iname)] = insts[iname]
                    ctx["insts"] = insts
                    continue
                if op == "disconnect":
                    io.disconnect(pname)
                    running[iname].pop(pname, None)
                else:
                    conn = self.expr(e, ctx, top=(op != "replace"))  # dict shorthand is a connect() feature only
                    if op == "replace":
                        io.replace(pname, conn)
                    elif op == "call":
                        io(**{pname: conn})
                    elif op == "setattr" and pname not in KEYWORDS and pname.isidentifier():
                        setattr(io, pname, conn)
                    else:
                        io.connect(pname, conn)
                    if isinstance(conn, dict):
                        conn = io.conns.get(pname)  # dict shorthand is converted on the way in
                    running[iname][pname] = conn
                got = io.conns
                if set(got) != set(running[iname]) or any(got[k] is not v for k, v in running[iname].items()):
                    self.conn_mismatches.append("after step %d (%s %s.%s): conns keys %s, expected %s" % (
                        step, op, iname, pname, sorted(got), sorted(running[iname])))
        for inst in (m["insts"] if m.get("history") is None else []):
            io = insts[inst["name"]]
            for pname, e in inst["conns"]:
                conn = self.expr(e, ctx, top=True, dict_ok=(cstyle != "call_kw"))
                st = cstyle if cstyle != "mixed" else ("call", "setattr", "connect")[n % 3]
                n += 1
                if pname in KEYWORDS or not pname.isidentifier():
                    st = "connect"
                if st == "call":
                    io(**{pname: conn})
                elif st == "setattr":
                    setattr(io, pname, conn)
                else:
                    io.connect(pname, conn)
        if self.mutate:
            self.mutate(self, k, "post_connect", ctx)
        for name, n_ in mult_late.items():
            if name in multiplied:
                continue
            insts[name] = n_ * insts[name]
            self.inst_objs[(k, name)] = insts[name]
        if style == "proc":
            for name, io in insts.items():
                if late or name in mult_late:
                    mod.add(io, name=name)
        else:
            attrs = {}
            for name, o in order:
                attrs[name] = o
            for name, io in insts.items():
                attrs[name] = io
            mod = h.module(type(m.get("name") or "Anon", (), attrs))
            if not m.get("name"):
                mod.name = None
        ctx["mod"] = mod
        if self.mutate:
            self.mutate(self, k, "done", ctx)
        return mod

    def expr(self, e, ctx, top=False, dict_ok=True):
        h = self.h
        t = e[0]
        if t == "sig":
            return ctx["objs"][e[1]]
        if t == "slice":
            base = self.expr(e[1], ctx)
            idx = e[2]
            if isinstance(idx, int):
                return base[idx]
            return base[slice(*idx)]
        if t == "cat":
            return h.Concat(*[self.expr(p, ctx) for p in e[1]])
        if t == "pref":
            io = ctx["insts"][e[1]]
            return getattr(io, e[2])
        if t == "nc":
            key = (ctx["k"], e[1])
            if e[1] is None:
                return h.NoConn(name=e[2]) if len(e) > 2 and e[2] else h.NoConn()
            if key not in self.ncs:
                self.ncs[key] = h.NoConn(name=e[2]) if len(e) > 2 and e[2] else h.NoConn()
            return self.ncs[key]
        if t == "bun":
            return ctx["objs"][e[1]]
        if t == "bref":
            return getattr(self.expr(e[1], ctx), e[2])
        if t == "anon":
            d = {mem: self.expr(sub, ctx) for mem, sub in e[1]}
            if top and dict_ok and len(e) > 2 and e[2] == "dict":
                return d
            ab = h.AnonymousBundle(**d)
            ANON_IDS.add(id(ab))  # addresses only (C12's allocation-history worker looks for their re-use)
            return ab
        if t in ("orphan", "foreign"):
            sig = h.Signal(name="zz_%s" % t, width=e[1])
            if t == "foreign":
                other = h.Module(name="ForeignOwner")
                other.add(sig)
                self._keep = getattr(self, "_keep", []) + [other]
            return sig
        if t == "child_slice":
            # the very Slice object a sub-module uses of one of ITS signals, handed to this (ancestor) module's connection as well
            child = self.module(e[1])
            sig = child.add(h.Signal(name="zz_cs", width=e[2] + 1))
            sl = sig[0:e[2]]
            ZH = h.ExternalModule(name="ZH%d" % e[2], port_list=[h.Inout(name="a", width=e[2])], domain="verif")
            child.add(ZH()(a=sl), name="zz_user")
            return sl
        if t in ("evicted", "pref_evicted"):
            # an object that WAS this module's, until its name was given to something else: it is nobody's now
            mod = ctx["mod"]
            if mod is None:
                raise ValueError("evicted objects need a procedural module")
            if t == "evicted":
                old = mod.add(h.Signal(width=e[1]), name="zz_ev")
                setattr(mod, "zz_ev", h.Signal(width=e[1] + (1 if len(e) > 2 and e[2] == "wider" else 0)))
                return old
            old = mod.add(h.Instance(of=self.target(e[1], 998)), name="zz_evi")
            setattr(mod, "zz_evi", h.Signal())
            return getattr(old, e[2])
        if t in ("orphan_bun", "foreign_bun"):
            bi = self.bundle(e[1])()
            bi.name = "zz_%s" % t
            if t == "foreign_bun":
                other = h.Module(name="ForeignOwner")
                other.add(bi)
                self._keep = getattr(self, "_keep", []) + [other]
            return bi
        if t in ("pref_orphan", "pref_foreign"):
            io = h.Instance(of=self.target(e[1], 999), name="zz_inst")
            if t == "pref_foreign":
                other = h.Module(name="ForeignOwner")
                other.add(io)
                self._keep = getattr(self, "_keep", []) + [other]
            return getattr(io, e[2])
        raise ValueError("unknown expr %r" % (t,))
