"""Result aggregation, known-finding handling, evidence and exit codes.

Exit codes: 0 property held on everything explored (KNOWN-FINDING lines possible),
1 at least one VIOLATION line printed, 2 harness problem (never a verdict)."""
import json, os, re, sys, time, traceback
from collections import Counter
from . import env

MAX_FAIL_PER_SIG = 4
MAX_SAMPLES = 8


def jsize(x):
    try:
        return len(json.dumps(x, default=str))
    except Exception:
        return 10**9


class Result:
    """Picklable partial result of one shard / one batch."""

    def __init__(self):
        self.evaluations = 0
        self.nontrivial = set()
        self.features = Counter()
        self.rejections = Counter()
        self.notes = Counter()
        self.samples = {}
        self.failures = {}  # sig -> list of {case, detail}
        self.fail_counts = Counter()
        self.harness_errors = []

    # -- recording -----------------------------------------------------
    def case(self, case, nontrivial=False, features=(), key=None):
        self.evaluations += 1
        for f in features:
            self.features[f] += 1
        if nontrivial:
            self.nontrivial.add(key if key is not None else env.canon_hash(case))
        cls = "+".join(sorted(features)[:3]) if features else "plain"
        if cls not in self.samples and len(self.samples) < 40:
            if jsize(case) < 6000:
                self.samples[cls] = case

    def reject(self, kind):
        self.rejections[kind] += 1

    def fail(self, sig, case, detail=""):
        self.fail_counts[sig] += 1
        lst = self.failures.setdefault(sig, [])
        lst.append({"case": case, "detail": str(detail)[:2000]})
        lst.sort(key=lambda f: jsize(f["case"]))
        del lst[MAX_FAIL_PER_SIG:]

    def harness_error(self, msg):
        if len(self.harness_errors) < 20:
            self.harness_errors.append(str(msg)[:2000])

    def merge(self, o):
        self.evaluations += o.evaluations
        self.nontrivial |= o.nontrivial
        self.features.update(o.features)
        self.rejections.update(o.rejections)
        self.notes.update(o.notes)
        for k, v in o.samples.items():
            if k not in self.samples and len(self.samples) < 40:
                self.samples[k] = v
        for sig, lst in o.failures.items():
            mine = self.failures.setdefault(sig, [])
            mine.extend(lst)
            mine.sort(key=lambda f: jsize(f["case"]))
            del mine[MAX_FAIL_PER_SIG:]
        self.fail_counts.update(o.fail_counts)
        self.harness_errors.extend(o.harness_errors)
        del self.harness_errors[20:]
        return self


# ---------------------------------------------------------------------------
# known findings


def load_known(pid):
    path = os.path.join(env.VERIF, "known_findings.json")
    if not os.path.exists(path):
        return []
    with open(path) as f:
        data = json.load(f)
    return [e for e in data.get("findings", []) if e.get("property") == pid]


def _repros(e):
    out = list(e.get("repros", []))
    if e.get("repro") is not None:
        out.append(e["repro"])
    return out


def entry_matches(entry, sig):
    m = entry.get("match", {})
    if "sig" in m and sig == m["sig"]:
        return True
    if "sigs" in m and sig in m["sigs"]:
        return True
    if "sig_re" in m and re.fullmatch(m["sig_re"], sig):
        return True
    return False


# ---------------------------------------------------------------------------


def finish(pid, level, tier, res, rule, assumptions, replay_fn, t0, *, exhaustive=False,
           min_nontrivial=2, extra=None, shrink_fn=None, write_evidence=True):
    """Decide the run. `replay_fn(case) -> list[(sig, detail)]` re-evaluates one case."""
    known = load_known(pid)
    open_entries = [e for e in known if e.get("status") == "open"]
    fixed_entries = [e for e in known if e.get("status") == "fixed"]
    violations = []
    known_hits = Counter()

    # replay tier 1: fixed findings' repros must pass, open ones are reported if still failing
    for e in fixed_entries:
        for rc in _repros(e):
            try:
                fails = replay_fn(rc)
            except Exception:
                res.harness_error("replay of fixed finding %s crashed: %s" % (e["id"], traceback.format_exc()))
                continue
            for sig, detail in fails:
                res.fail(sig, rc, "regression of fixed finding %s: %s" % (e["id"], detail))
    for e in open_entries:
        still = None
        for rc in _repros(e):
            try:
                fails = replay_fn(rc)
                still = bool(still) or any(entry_matches(e, sig) for sig, _ in fails)
                # anything else the repro shows goes through the normal path
                for sig, detail in fails:
                    if not entry_matches(e, sig):
                        res.fail(sig, rc, detail)
            except Exception:
                res.harness_error("replay of open finding %s crashed: %s" % (e["id"], traceback.format_exc()))
        if still or (still is None and any(entry_matches(e, s) for s in res.failures)):
            print("KNOWN-FINDING: property=%s %s" % (pid, e["what"]))

    # replay tier 2: saved replay files for this property
    rdir = os.path.join(env.VERIF, "replay")
    # (files under replay/ are outputs of violations; regress/ holds committed regression inputs)
    gdir = os.path.join(env.VERIF, "regress", pid)
    nreg = 0
    if os.path.isdir(gdir):
        for fn in sorted(os.listdir(gdir)):
            if not fn.endswith(".json"):
                continue
            with open(os.path.join(gdir, fn)) as f:
                rc = json.load(f)
            try:
                fails = replay_fn(rc["case"])
                nreg += 1
            except Exception:
                res.harness_error("regression input %s crashed: %s" % (fn, traceback.format_exc()))
                continue
            for sig, detail in fails:
                res.fail(sig, rc["case"], "regression input %s: %s" % (fn, detail))

    for sig in sorted(res.failures):
        ent = [e for e in open_entries if entry_matches(e, sig)]
        if ent:
            known_hits[ent[0]["id"]] += res.fail_counts[sig]
            continue
        f0 = res.failures[sig][0]
        case = f0["case"]
        if shrink_fn is not None:
            try:
                case = shrink_fn(case, sig)
            except Exception:
                pass
        os.makedirs(rdir, exist_ok=True)
        path = os.path.join(rdir, "%s_%s.json" % (pid, env.canon_hash(sig)))
        with open(path, "w") as f:
            json.dump({"property": pid, "tier": tier, "seed": env.seed(), "sig": sig,
                       "detail": f0["detail"], "case": case, "unshrunk": f0["case"]}, f, indent=1, default=str)
        violations.append((sig, path))

    wall = time.time() - t0
    cov = {
        "evaluations": res.evaluations,
        "distinct_nontrivial": len(res.nontrivial),
        "rule": rule,
        "samples": list(res.samples.values())[:MAX_SAMPLES],
        "exhaustive": bool(exhaustive),
        "feature_histogram": dict(res.features.most_common(200)),
        "rejections": dict(res.rejections.most_common(40)),
        "notes": dict(res.notes.most_common(200)),
        "known_finding_hits": dict(known_hits),
        "failure_signatures": {s: res.fail_counts[s] for s in sorted(res.failures)},
        "regression_inputs_replayed": nreg,
    }
    if level == "translation_validation":
        cov["programs"] = res.evaluations
        cov["disagreements_checked"] = sum(res.fail_counts.values())
    if extra:
        cov.update(extra)
    if not cov["samples"]:
        cov["samples"] = ["(no sample small enough to print)"]
    ev = {
        "property_id": pid, "tier": tier, "seed": env.seed(), "level": level,
        "coverage": cov, "assumptions": list(assumptions), "wall_s": round(wall, 2),
        "violations": len(violations),
    }
    if res.harness_errors:
        ev["coverage"]["harness_errors"] = res.harness_errors[:5]
    if write_evidence and not os.environ.get("VERIF_NO_EVIDENCE"):
        os.makedirs(os.path.join(env.VERIF, "evidence"), exist_ok=True)
        with open(os.path.join(env.VERIF, "evidence", pid + ".json"), "w") as f:
            json.dump(ev, f, indent=1, default=str)

    for sig, path in violations:
        print("VIOLATION property=%s replay=%s" % (pid, path))
        print("  signature: %s" % sig)
        print("  detail: %s" % res.failures[sig][0]["detail"][:600].replace("\n", "\n    "))
    print("%s tier=%s seed=%d evaluations=%d nontrivial=%d violations=%d known_hits=%d wall=%.1fs" % (
        pid, tier, env.seed(), res.evaluations, len(res.nontrivial), len(violations),
        sum(known_hits.values()), wall))
    if violations:
        return 1
    if res.harness_errors:
        print("HARNESS-ERROR: " + res.harness_errors[0], file=sys.stderr)
        return 2
    if len(res.nontrivial) < min_nontrivial:
        print("HARNESS-ERROR: only %d non-trivial cases (< %d)" % (len(res.nontrivial), min_nontrivial), file=sys.stderr)
        return 2
    return 0
