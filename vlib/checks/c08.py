"""C08 - A failed elaboration or generator call does not poison later ones.

Per generated design: enumerated (fault, continuation) pairs, each run in its own pristine process.
Faults: an extra pass raising at (position, module); a subclass of each real pass raising from an
overridden helper in the middle of its in-place rewrite; real design faults (C02 operators);
generator bodies raising on their first call.  Continuations: retry unchanged, repair and retry,
an unrelated design, a new parent sharing the non-offending sub-modules, a parent containing the
offending module.  Oracle: whatever a later call returns equals what a pristine process returns."""
import copy, json, time
from .. import env, core, par, gen, model
from ..build import Builder
from . import c02

PID = "C08"
LEVEL = "fault_enumeration"
RULE = ("Designs from the C01 generator (<=4 modules, with arrays, bundles, pairs). Enumerated faults: for every position of the default "
        "pass list x every module, an extra pass raising there; for every rewriting pass (InstBundle, ResolvePortRefs, BundleFlattener, "
        "ArrayFlattener, SliceResolver) x module x k in {1,2,3}, a subclass raising from flatname / elaborate_instance_base on its k-th "
        "call while visiting that module (i.e. mid-rewrite); one design fault per C02 fault class; generators whose body raises on the "
        "first call (direct, nested in another generator, inside a generated module). Continuations after each failure, in the same "
        "process: retry unchanged; switch the fault off / reset_elaborator and retry; elaborate an unrelated design; elaborate a new "
        "parent sharing non-offending sub-modules; elaborate a parent containing the offending module. Oracle: any package a later call "
        "returns is byte-equal to the one a pristine process returns for that design; designs not containing the offending module must "
        "export exactly that; retry-unchanged must raise with the original error's final line (no spurious circular-dependency "
        "message); a generator whose body raised runs again. Non-trivial = fault raised inside or after a rewriting pass, or a "
        "continuation other than retry unchanged; distinct by (design hash, fault, continuation).")
ASSUME = ["'repair' of an injected fault = switching it off and reset_elaborator(); raising forever for the offending module is allowed",
          "the unrelated design and the new parent are fixed small designs built from fresh objects plus the non-offending sub-modules"]

PASSES = ["Orphanage", "InstBundleElabPass", "ResolvePortRefs", "ConnTypes", "BundleFlattener", "ArrayFlattener", "SliceResolver",
          "RecheckConnTypes", "RecheckOrphanage", "MarkModules"]
REWRITERS = ["InstBundleElabPass", "ResolvePortRefs", "BundleFlattener", "ArrayFlattener", "SliceResolver"]


class Injected(Exception):
    """The injected failure: a user-defined exception whose constructor signature is not its .args (so it cannot be re-created
    from them, as copy.copy / pickle would try to)."""

    def __init__(self, what, where="harness", *, code=7):
        super().__init__("%s [%s/%d]" % (what, where, code))
        self.what, self.where, self.code = what, where, code

    def __reduce__(self):
        raise TypeError("Injected cannot be reduced")


class Interrupted(BaseException):
    """User code can also leave through a BaseException (KeyboardInterrupt, SystemExit, a test framework's skip, ...)."""


def final_line(e):
    return str(e).strip().split("\n")[-1].strip()


def contains(spec, k, target):
    return target in c07_reach(spec, k)


def c07_reach(spec, k, acc=None):
    acc = set() if acc is None else acc
    if k in acc:
        return acc
    acc.add(k)
    for inst in spec["modules"][k]["insts"]:
        if inst["of"][0] == "mod":
            c07_reach(spec, inst["of"][1], acc)
    cyc = spec.get("cycle")
    if cyc and cyc["kind"] == "two" and cyc["child"] == k:
        c07_reach(spec, cyc["mod"], acc)  # the injected instance of the parent inside the child
    return acc


def fresh_bytes(spec, tops):
    """In a pristine child: the reference packages for each module index in `tops` (None if it raises)."""
    env.setup_paths()
    import hdl21 as h
    b = Builder(spec)
    out = {}
    for k in tops:
        try:
            out[k] = h.to_proto(b.module(k)).SerializeToString(deterministic=True).hex()
        except Exception as e:
            out[k] = None
    return out


def parent_of(spec, offending):
    """(parent module index, instance name) of some plain instance of module `offending` reachable from the top, or None."""
    for k in sorted(c07_reach(spec, spec["top"])):
        for inst in spec["modules"][k]["insts"]:
            if inst["of"] == ["mod", offending] and inst.get("kind", "inst") == "inst":
                return k, inst["name"]
    return None


def edit_parent(h, b, spec, pk, iname):
    """The designer's edit after a failure: the instance of the offending module is replaced - under the same name -
    by an array of a healthy leaf cell on fresh nets (something an early pass has to flatten)."""
    pm = b.module(pk)
    Good = h.ExternalModule(name="GoodLeaf", port_list=[h.Input(name="a"), h.Output(name="z")], domain="verif")
    sa = pm.add(h.Signal(name="edit_a"))
    sz = pm.add(h.Signal(name="edit_z", width=2))
    setattr(pm, iname, 2 * Good()(a=sa, z=sz))
    return pm


def edit_parent_fresh(spec, pk, iname):
    env.setup_paths()
    import hdl21 as h
    b = Builder(spec)
    top = b.module(spec["top"])
    try:
        edit_parent(h, b, spec, pk, iname)
        return h.to_proto(top).SerializeToString(deterministic=True).hex()
    except Exception as e:
        return None


def new_parent(h, b, spec, clean):
    """A new parent instantiating every clean module twice: once wired explicitly, once by port references."""
    par_ = h.Module(name="SharingParent")
    for k in clean:
        mod = b.module(k)
        conns = {}
        for p in model.module_iface(spec, k):
            if p[0] == "sig":
                conns[p[1]] = par_.add(h.Signal(name="sp%d_%s" % (k, p[1]), width=p[2]))
            else:
                conns[p[1]] = par_.add(b.bundle(p[2])(), name="sp%d_%s" % (k, p[1]))
        x1 = par_.add(mod(**conns), name="x%d_a" % k)
        x2 = mod()
        for p in model.module_iface(spec, k):
            x2.connect(p[1], getattr(x1, p[1]))
        par_.add(x2, name="x%d_b" % k)
        # and a pair wired instance-to-instance only (no declared net: the elaborator has to create one per port)
        x3, x4 = mod(), mod()
        for p in model.module_iface(spec, k):
            x4.connect(p[1], getattr(x3, p[1]))
        par_.add(x3, name="x%d_c" % k)
        par_.add(x4, name="x%d_d" % k)
    return par_


def wrapping_parent(h, b, spec, clean):
    """A new parent instantiating the library's Wrapper(m) of every clean module m."""
    from hdl21.generators import Wrapper
    par_ = h.Module(name="WrappingParent")
    for k in clean:
        w = Wrapper(b.module(k))
        conns = {}
        for p in model.module_iface(spec, k):
            if p[0] == "sig":
                conns[p[1]] = par_.add(h.Signal(name="wp%d_%s" % (k, p[1]), width=p[2]))
            else:
                conns[p[1]] = par_.add(b.bundle(p[2])(), name="wp%d_%s" % (k, p[1]))
        par_.add(w(**conns), name="w%d" % k)
    return par_


def new_parent_fresh(spec, clean, wrap=False):
    env.setup_paths()
    import hdl21 as h
    b = Builder(spec)
    try:
        return h.to_proto((wrapping_parent if wrap else new_parent)(h, b, spec, clean)).SerializeToString(deterministic=True).hex()
    except Exception as e:
        return None


UNRELATED = {"cells": [{"kind": "ext", "name": "UX", "ports": [["a", 2, "in"], ["b", 1, "out"]]}], "bundles": [],
             "modules": [{"name": "UnrelatedLeaf", "sigs": [["p", 2, "in"], ["s", 1, "sig"]], "bundles": [],
                          "insts": [{"name": "i0", "of": ["cell", 0], "kind": "array", "n": 2, "tag": 1, "conns": [["a", ["sig", "p"]], ["b", ["nc", "n", None]]]}]},
                         {"name": "UnrelatedTop", "sigs": [["q", 2, "sig"]], "bundles": [],
                          "insts": [{"name": "u", "of": ["mod", 0], "kind": "inst", "tag": 2, "conns": [["p", ["sig", "q"]]]}]}], "top": 1}


def unrelated_fresh():
    env.setup_paths()
    import hdl21 as h
    return h.to_proto(Builder(UNRELATED).module(1)).SerializeToString(deterministic=True).hex()


def run_scenario(spec, fault, cont):
    """In a pristine child. Returns dict describing first failure and the continuation's outcome."""
    env.setup_paths()
    import hdl21 as h
    import importlib
    P = importlib.import_module("hdl21.elab.passes")
    E = importlib.import_module("hdl21.elab.elab")
    Elaborator = E.Elaborator
    out = {}
    b = Builder(spec)
    top = spec["top"]
    kind = fault["kind"]
    state = {"armed": True, "count": 0}
    gen_counts = {}
    offending = fault.get("module")

    default_passes = list(Elaborator.default().passes)
    names = [p.__name__ for p in default_passes]
    if kind in ("extra_pass", "mid_rewrite"):
        tgt_name = spec["modules"][offending]["name"]

        def is_target(module):
            return module.name is not None and (module.name == tgt_name or module.name.startswith(tgt_name + "("))
        if kind == "extra_pass":
            class Boom(P.ElabPass):
                def elaborate_module(self, module):
                    if state["armed"] and is_target(module):
                        raise Injected("injected failure in %s at pass position %d" % (tgt_name, fault["pos"]))
                    return module
            passes = default_passes[:fault["pos"]] + [Boom] + default_passes[fault["pos"]:]
        else:
            base = default_passes[names.index(fault["pass"])]

            class Mid(base):
                _cur = None

                def elaborate_module(self, module):
                    prev, Mid._cur = Mid._cur, module
                    try:
                        return super().elaborate_module(module)
                    finally:
                        Mid._cur = prev

                def _maybe(self):
                    if state["armed"] and Mid._cur is not None and is_target(Mid._cur):
                        state["count"] += 1
                        if state["count"] == fault["k"]:
                            raise Injected("injected failure in the middle of %s on %s (call %d)" % (fault["pass"], tgt_name, fault["k"]))

                def flatname(self, *a, **kw):
                    self._maybe()
                    return super().flatname(*a, **kw)

                def elaborate_instance_base(self, inst):
                    self._maybe()
                    return super().elaborate_instance_base(inst)
            passes = [Mid if p is base else p for p in default_passes]
        E.set_elaborator(Elaborator(passes=passes))
    elif kind == "gen_raises":
        # wrap module `offending` in a generator whose body raises the first time
        pass

    def build_top():
        return b.module(top)

    # ---- the failing call
    if kind != "gen_raises":
        try:
            t = build_top()
            c02.apply_cycle(b, spec)
        except Exception as e:
            return {"first": "build_failed"}
    try:
        if kind == "gen_raises":
            @h.paramclass
            class GP:
                k = h.Param(dtype=int, desc="k", default=0)

            def body(params: GP) -> h.Module:
                gen_counts["n"] = gen_counts.get("n", 0) + 1
                if gen_counts["n"] == 1:
                    if fault["where"] == "returns_none":
                        return None  # (a body that forgot its return statement, the first time round)
                    if fault["where"].endswith("_base"):
                        raise Interrupted("generator body interrupted on its first call")
                    raise Injected("generator body raised on its first call")
                m = h.Module()
                m.add(h.Signal(name="s", width=2))
                m.add(h.R(r=3)(p=m.s[0], n=m.s[1]), name="r")
                return m
            body.__name__ = "FlakyGen"
            G = h.generator(body)
            out["G"] = True
            if fault["where"] == "naming":
                import typing

                @h.paramclass
                class NP_:
                    f = h.Param(dtype=typing.Any, desc="anything")
                    k = h.Param(dtype=int, desc="k", default=0)

                def body2(params: NP_) -> h.Module:
                    gen_counts["n"] = gen_counts.get("n", 0) + 2  # counts as 'ran'
                    m = h.Module()
                    m.add(h.Signal(name="s"))
                    return m
                body2.__name__ = "UnnameableGen"
                G2 = h.generator(body2)
                fn = lambda: 1
                first = lambda: G2(f=fn)
            elif fault["where"] == "wrong_params":
                # a positional argument that is not the generator's parameter type: refused before the body runs
                @h.paramclass
                class Other:
                    k = h.Param(dtype=int, desc="k", default=0)
                first = lambda: G(Other(k=1))
            elif fault["where"] in ("direct", "direct_base", "returns_none"):
                first = lambda: G(k=1)
            elif fault["where"] == "nested_caught":
                # the failing call happens inside another generator's body, which catches the error and completes;
                # the call under test is the next, direct one with equal parameters
                def tolerant(params: GP) -> h.Module:
                    m = h.Module()
                    try:
                        m.add(G(k=1)(), name="inner")
                    except Injected:
                        m.add(h.Signal(name="fallback"))
                    return m
                tolerant.__name__ = "TolerantGen"
                T = h.generator(tolerant)
                T(k=1)
                if gen_counts.get("n") != 1:
                    return {"first": "prelude_did_not_fail"}

                def first():
                    raise Injected("generator body raised on its first call (inside a generator that caught it)")
                real_first = lambda: G(k=1)
            elif fault["where"] in ("nested", "nested_base"):
                def outer(params: GP) -> h.Module:
                    m = h.Module()
                    m.add(G(k=1)(), name="inner")
                    return m
                outer.__name__ = "OuterGen"
                O = h.generator(outer)
                first = lambda: O(k=1)
            else:
                def mk():
                    m = h.Module(name="HoldsGen")
                    m.add(G(k=1)(), name="inner")
                    return m
                first = mk
            res = first()
            out["first"] = "returned"
        else:
            pkg = h.to_proto(t)
            out["first"] = "returned"
    except RecursionError as e:
        out["first"] = "raised"; out["first_err"] = "RecursionError"; out["first_line"] = "RecursionError"
    except Exception as e:
        out["first"] = "raised"
        out["first_err"] = type(e).__name__
        out["first_line"] = final_line(e)
    except Interrupted as e:
        out["first"] = "raised"
        out["first_err"] = "Interrupted"
        out["first_line"] = final_line(e)
    if out["first"] != "raised":
        return out

    # ---- continuation
    def export(mod):
        return h.to_proto(mod).SerializeToString(deterministic=True).hex()

    try:
        if cont == "retry":
            if kind == "gen_raises":
                m = real_first() if fault["where"] == "nested_caught" else first()
                out["cont"] = "returned"
                out["gen_runs"] = gen_counts.get("n")
                out["bytes"] = export(m if isinstance(m, h.Module) else m)
            else:
                # the failed call repeated unchanged - three times over: every repeat reports what the first call reported
                for attempt in (1, 2, 3):
                    try:
                        out["bytes"] = export(b.module(top))
                        out["cont"] = "returned"
                        break
                    except RecursionError:
                        raise
                    except Exception as e_:
                        if attempt == 3 or not (out.get("first_line") and out["first_line"] in str(e_)):
                            raise
        elif cont == "repair_retry":
            state["armed"] = False
            E.reset_elaborator()
            out["bytes"] = export(b.module(top))
            out["cont"] = "returned"
        elif cont == "unrelated":
            if cont == "unrelated" and kind in ("extra_pass", "mid_rewrite"):
                state["armed"] = True  # the injected pass stays installed; it only fires on the offending module
            out["bytes"] = export(Builder(UNRELATED).module(1))
            out["cont"] = "returned"
        elif cont == "share_clean":
            # a new parent instantiating every module that does not contain the offending one
            clean = [k for k in range(len(spec["modules"])) if k in c07_reach(spec, top) and offending not in c07_reach(spec, k)]
            out["clean"] = clean
            out["bytes"] = export(new_parent(h, b, spec, clean)) if clean else None
            out["cont"] = "returned"
        elif cont == "wrap_clean":
            # ... the same modules handed to the library's Wrapper generator, the wrappers instantiated in a new parent
            clean = [k for k in range(len(spec["modules"])) if k in c07_reach(spec, top) and offending not in c07_reach(spec, k)]
            out["clean"] = clean
            out["bytes"] = export(wrapping_parent(h, b, spec, clean)) if clean else None
            out["cont"] = "returned"
        elif cont == "edit_parent":
            po = parent_of(spec, offending) if offending is not None else None
            if po is None:
                out["cont"] = "skipped"
                return out
            out["edited"] = list(po)
            edit_parent(h, b, spec, po[0], po[1])
            if kind in ("extra_pass", "mid_rewrite"):
                state["armed"] = False
                E.reset_elaborator()
            out["bytes"] = export(b.module(top))
            out["cont"] = "returned"
        elif cont == "parent_of_offender":
            par_ = h.Module(name="NewParent")
            off = b.module(offending if offending is not None else top)
            conns = {}
            for p in model.module_iface(spec, offending if offending is not None else top):
                if p[0] == "sig":
                    conns[p[1]] = par_.add(h.Signal(name="np_" + p[1], width=p[2]))
                else:
                    conns[p[1]] = par_.add(b.bundle(p[2])(), name="np_" + p[1])
            par_.add(off(**conns), name="x")
            out["bytes"] = export(par_)
            out["cont"] = "returned"
    except RecursionError:
        out["cont"] = "raised"; out["cont_line"] = "RecursionError"; out["cont_err"] = "RecursionError"
    except Exception as e:
        out["cont"] = "raised"
        out["cont_err"] = type(e).__name__
        out["cont_line"] = final_line(e)
        out["cont_msg"] = str(e)[-50000:]
    return out


def faults_for(spec):
    mods = sorted(c07_reach(spec, spec["top"]))
    out = []
    for pos in range(len(PASSES) + 1):
        for m in mods:
            out.append({"kind": "extra_pass", "pos": pos, "module": m})
    for pname in REWRITERS:
        for m in mods:
            for k in (1, 2, 3):
                out.append({"kind": "mid_rewrite", "pass": pname, "module": m, "k": k})
    for where in ("direct", "nested", "in_module", "naming", "direct_base", "nested_base", "nested_caught", "returns_none", "wrong_params"):
        out.append({"kind": "gen_raises", "where": where})
    return out


def design_faults(spec):
    """One mutant spec per C02 fault class (first site found)."""
    seen = {}
    for cls, site, ms in c02.mutants(spec):
        if cls in seen:
            continue
        try:
            model.flatten(ms)
            continue
        except (model.ModelError, RecursionError):
            pass
        seen[cls] = (site, ms)
    return seen


def judge(spec, fault, cont, r, fresh, unrel):
    fails = []
    tag = "%s/%s" % (fault["kind"] if fault["kind"] != "mid_rewrite" else "mid_rewrite:" + fault["pass"], cont)
    if r.get("first") != "raised":
        return fails, "fault_did_not_fire"
    circ = "circular dependency" in (r.get("cont_line") or "") or "circular dependency" in (r.get("cont_msg") or "")
    orig_circ = "circular" in (r.get("first_line") or "")
    if cont == "retry":
        if fault["kind"] == "gen_raises" and fault["where"] in ("naming", "wrong_params"):
            if r.get("cont") == "returned":
                fails.append(("failed_generator_call_returns_on_retry", "a generator call that failed (%s) returned a module when repeated; a fresh process raises" % r.get("first_line")))
            elif circ and not orig_circ:
                fails.append(("spurious_circular_dependency:gen_raises:" + fault["where"], "the refused generator call, repeated, reports %r; the original error was %r" % (r.get("cont_line"), r.get("first_line"))))
        elif fault["kind"] == "gen_raises":
            if r.get("cont") != "returned":
                fails.append(("generator_not_rerun:" + fault["where"], "a generator whose body raised once raised again on the next call: %s" % r.get("cont_line")))
            elif r.get("gen_runs") != 2:
                fails.append(("generator_body_runs:%s" % r.get("gen_runs"), "generator body ran %s times over two calls" % r.get("gen_runs")))
        else:
            if r.get("cont") == "returned":
                if r.get("bytes") != fresh.get(spec["top"]):
                    fails.append(("retry_returns_wrong_package:" + tag, "after a failure (%s) the retry returned a package a fresh process does not return" % r.get("first_line")))
                else:
                    fails.append(("retry_does_not_raise:" + tag, "the failed call, repeated unchanged, returned a package instead of reporting the original error (%s)" % r.get("first_line")))
            else:
                if circ and not orig_circ:
                    fails.append(("spurious_circular_dependency:" + tag, "retry reports %r, the original error was %r" % (r.get("cont_line"), r.get("first_line"))))
                elif r.get("first_line") and r["first_line"] not in (r.get("cont_msg") or r.get("cont_line") or ""):
                    fails.append(("retry_reports_different_error:" + tag, "retry reports %r, the original error was %r" % (r.get("cont_line"), r.get("first_line"))))
    elif cont in ("repair_retry", "parent_of_offender"):
        if r.get("cont") == "returned":
            ref = fresh.get(spec["top"]) if cont == "repair_retry" else fresh.get("parent_of_offender")
            if cont == "repair_retry" and r.get("bytes") != ref:
                fails.append(("returns_package_fresh_process_would_not:" + tag, "after %s and repair, the retry returned a package that differs from a fresh process's" % r.get("first_line")))
            if cont == "parent_of_offender" and fault["kind"] != "design_fault" and ref is not None and r.get("bytes") != ref:
                fails.append(("returns_package_fresh_process_would_not:" + tag, "a new parent of the module that failed exports a package a fresh process does not return"))
            if cont == "parent_of_offender" and fault["kind"] == "design_fault":
                fails.append(("exports_faulty_module:" + tag, "a new parent containing the ill-formed module was exported"))
        elif circ and not orig_circ:
            fails.append(("spurious_circular_dependency:" + tag, "later call reports %r, the original error was %r" % (r.get("cont_line"), r.get("first_line"))))
        elif cont == "parent_of_offender" and r.get("cont") == "raised" and r.get("first_line") and r["first_line"] not in (r.get("cont_msg") or r.get("cont_line") or ""):
            # the module that failed is asked for again through a new, sound parent: what is wrong with it is still what was reported
            fails.append(("new_parent_reports_different_error:" + tag, "a new parent of the module that failed reports %r, the original error was %r" % (r.get("cont_line"), r.get("first_line"))))
    elif cont == "edit_parent":
        if r.get("cont") == "returned":
            ref = fresh.get("edit_parent")
            if ref is not None and r.get("bytes") != ref:
                fails.append(("edited_parent_exports_wrong_package:" + tag, "after %s the parent was edited to no longer instantiate the failed module and exported: the package differs from a fresh build of the edited design" % r.get("first_line")))
        elif r.get("cont") == "raised" and circ and not orig_circ:
            fails.append(("spurious_circular_dependency:" + tag, "later call reports %r, the original error was %r" % (r.get("cont_line"), r.get("first_line"))))
    elif cont == "unrelated":
        if r.get("cont") != "returned":
            fails.append(("unrelated_design_fails:" + tag, "after a failure elsewhere, an unrelated design raised: %s" % r.get("cont_line")))
        elif r.get("bytes") != unrel:
            fails.append(("unrelated_design_differs:" + tag, "after a failure elsewhere, an unrelated design exported differently from a fresh process"))
    elif cont == "wrap_clean":
        if r.get("clean") and fresh.get("new_parent") is not None:
            if r.get("cont") != "returned":
                fails.append(("wrapper_of_clean_submodule_fails:" + tag, "Wrapper(m) of a sub-module not containing the offending module, instantiated in a new parent, raised: %s" % r.get("cont_line")))
            elif r.get("bytes") != fresh.get("new_parent"):
                fails.append(("wrapper_of_clean_submodule_differs:" + tag, "Wrapper(m) of the sub-modules %s (none containing the offending module) exported differently from a fresh process" % r.get("clean")))
    elif cont == "share_clean":
        if r.get("cont") != "returned" and (not r.get("clean") or fresh.get("new_parent") is not None):
            fails.append(("clean_submodule_fails:" + tag, "a sub-module not containing the offending module raised: %s" % r.get("cont_line")))
        elif r.get("clean") and fresh.get("new_parent") is not None and r.get("bytes") != fresh.get("new_parent"):
            fails.append(("clean_submodule_differs:" + tag, "a new parent of the sub-modules %s (none containing the offending module) exported differently from a fresh process" % r.get("clean")))
    return fails, "ok"


def parent_of_offender_fresh(spec, offending):
    env.setup_paths()
    import hdl21 as h
    b = Builder(spec)
    par_ = h.Module(name="NewParent")
    off = b.module(offending)
    conns = {}
    for p in model.module_iface(spec, offending):
        if p[0] == "sig":
            conns[p[1]] = par_.add(h.Signal(name="np_" + p[1], width=p[2]))
        else:
            conns[p[1]] = par_.add(b.bundle(p[2])(), name="np_" + p[1])
    par_.add(off(**conns), name="x")
    try:
        return h.to_proto(par_).SerializeToString(deterministic=True).hex()
    except Exception:
        return None


CONTS = ["retry", "repair_retry", "unrelated", "share_clean", "wrap_clean", "parent_of_offender", "edit_parent"]


def shard(idx, n, tier):
    env.setup_paths()
    import hdl21  # noqa
    par.server()
    import hypothesis
    from hypothesis import given, settings, HealthCheck, Phase
    res = core.Result()
    ndes = (640 if tier == "thorough" else 32) // n
    opts = gen.Opts(min_modules=2, max_modules=4, max_insts=3, wide=False)
    unrel = par.pristine(unrelated_fresh)

    @hypothesis.seed(env.subseed(PID, idx))
    @settings(max_examples=max(1, ndes), database=None, deadline=None, derandomize=False,
              suppress_health_check=list(HealthCheck), phases=[Phase.generate], report_multiple_bugs=False)
    @given(gen.designs(opts))
    def run(spec):
        try:
            model.flatten(spec)
        except model.ModelError:
            return
        sp = {k: spec[k] for k in spec if k != "features"}
        mods = sorted(c07_reach(sp, sp["top"]))
        fresh = par.pristine(fresh_bytes, sp, mods)
        if par.is_exc(fresh) or fresh.get(sp["top"]) is None:
            res.reject("base_design_does_not_export")
            return
        dh = env.canon_hash(sp)
        res.notes["designs"] += 1
        pof = {}
        np_cache = {}
        scen = [(f, c) for f in faults_for(sp) for c in CONTS
                if not (f["kind"] == "gen_raises" and c != "retry")]
        for cls, (site, ms) in design_faults(sp).items():
            for c in ("retry", "unrelated", "share_clean", "wrap_clean", "edit_parent"):
                scen.append(({"kind": "design_fault", "cls": cls, "site": site, "spec": ms}, c))
        for fault, cont in scen:
            use = fault.get("spec", sp)
            if fault["kind"] == "design_fault":
                fault = dict(fault)
                # the offending module is where the mutation sits: approximate by the set of modules whose text changed
                changed = [k for k in range(len(sp["modules"])) if k < len(use["modules"]) and use["modules"][k] != sp["modules"][k]]
                fault["module"] = use["cycle"]["mod"] if use.get("cycle") else (changed[0] if changed else use["top"])
            if cont == "parent_of_offender" and fault.get("module") is not None and fault["module"] not in pof:
                pof[fault["module"]] = par.pristine(parent_of_offender_fresh, sp, fault["module"])
            fr = dict(fresh)
            fr["parent_of_offender"] = pof.get(fault.get("module"))
            fk = {k: v for k, v in fault.items() if k != "spec"}
            r = par.pristine(run_scenario, use, fk, cont)
            if par.is_exc(r):
                res.harness_error("%s %s %s" % (r[1], r[2], r[3][-800:]))
                continue
            if fault["kind"] == "design_fault":
                fr = par.pristine(fresh_bytes, use, sorted(c07_reach(use, use["top"]))) if cont in ("share_clean", "wrap_clean") else fr
                if par.is_exc(fr):
                    continue
            if cont == "edit_parent":
                if r.get("cont") == "skipped" or not r.get("edited"):
                    res.notes["edit_parent_not_applicable"] += 1
                    continue
                key = ("edit", id(use), tuple(r["edited"]))
                if key not in np_cache:
                    np_cache[key] = par.pristine(edit_parent_fresh, use, r["edited"][0], r["edited"][1])
                fr = dict(fr); fr["edit_parent"] = np_cache[key]
            if cont in ("share_clean", "wrap_clean") and r.get("clean"):
                key = (id(use), tuple(r["clean"]), cont)
                if key not in np_cache:
                    np_cache[key] = par.pristine(new_parent_fresh, use, r["clean"], cont == "wrap_clean")
                fr = dict(fr); fr["new_parent"] = np_cache[key]
            fails, note = judge(use, fault, cont, r, fr, unrel)
            case = {"spec": use, "fault": fk, "cont": cont}
            if note != "ok":
                res.notes[note + ":" + fault["kind"]] += 1
                continue
            for sig, detail in fails:
                res.fail(sig, case, detail)
            late = fault["kind"] == "mid_rewrite" or (fault["kind"] == "extra_pass" and fault["pos"] >= 2)
            res.case(case if len(json.dumps(use)) < 2500 else {"fault": fk, "cont": cont, "spec": "(large)"}, late or cont != "retry",
                     ["fault_" + fault["kind"] + (":" + fault.get("pass", "") if fault["kind"] == "mid_rewrite" else ""), "cont_" + cont,
                      "cont_outcome_" + str(r.get("cont"))], key="%s|%s|%s" % (dh, json.dumps(fk, sort_keys=True), cont))

    run()
    return res


def replay(case):
    spec, fault, cont = case["spec"], case["fault"], case["cont"]
    mods = sorted(c07_reach(spec, spec["top"]))
    fresh = par.in_child(fresh_bytes, spec, mods)
    unrel = par.in_child(unrelated_fresh)
    if fault.get("module") is not None and fault["kind"] != "design_fault":
        fresh["parent_of_offender"] = par.in_child(parent_of_offender_fresh, spec, fault["module"])
    r = par.in_child(run_scenario, spec, fault, cont)
    if par.is_exc(r):
        raise RuntimeError(r[2])
    if cont in ("share_clean", "wrap_clean") and r.get("clean"):
        fresh["new_parent"] = par.in_child(new_parent_fresh, spec, r["clean"], cont == "wrap_clean")
    if cont == "edit_parent" and r.get("edited"):
        fresh["edit_parent"] = par.in_child(edit_parent_fresh, spec, r["edited"][0], r["edited"][1])
    fails, note = judge(spec, fault, cont, r, fresh, unrel)
    return fails


def main(tier):
    t0 = time.time()
    env.setup_paths()
    import hdl21  # noqa
    res = par.run_shards(shard, extra=(tier,))
    return core.finish(PID, LEVEL, tier, res, RULE, ASSUME, replay, t0, min_nontrivial=200)
