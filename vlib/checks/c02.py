"""C02 - Ill-formed designs never yield a package or a netlist.

For generated valid designs, the complete list of single-fault mutants (per fault class of the
statement x every site where it applies) is planted; elaborate / to_proto / netlist must raise."""
import copy, io, json, time
from .. import env, core, par, gen, model
from ..build import Builder

PID = "C02"
LEVEL = "fault_enumeration"
RULE = ("Base designs from the C01 generator (<=3 modules); for each, every single-fault mutant is enumerated: width mismatch "
        "(direct on signal/slice/concat/port-reference connections, through a named-bundle member, an anonymous-bundle member, "
        "array broadcasting, pair members), missing connection, extra connection / extra anonymous-bundle member / missing member, "
        "reference to a non-existent port or bundle member, out-of-range integer index and empty slice on signal, slice, concat, "
        "port-reference and bundle-reference parents, orphan or foreign-owned signal / bundle instance / instance (direct, inside "
        "slice, concat, anonymous bundle, as port-reference target), no-connect also referenced, circular instantiation (self, "
        "two-cycle), unnamed module, module-name clash. A mutant counts only if the reference interpreter refuses it. Each mutant "
        "runs in a pristine forked process: elaborate must raise; if it does not, to_proto and netlist are tried too. "
        "Non-trivial = fault site other than a top-level whole-signal connection; distinct by (base hash, class, site).")
ASSUME = ["the reference interpreter's typing rules define ill-formedness (mutants it accepts are discarded and counted)",
          "exception type and text are not constrained", "a slice with an out-of-range *bound* is not a fault here (C03 allows Python clamping)"]

MAX_MUTANTS = 160


def reachable(spec):
    seen, order = set(), []

    def visit(k):
        if k in seen:
            return
        seen.add(k)
        for inst in spec["modules"][k]["insts"]:
            if inst["of"][0] == "mod":
                visit(inst["of"][1])
        order.append(k)
    visit(spec["top"])
    return order


def expr_kind(e):
    return {"sig": "signal", "slice": "slice", "cat": "concat", "pref": "portref", "bref": "bundleref", "bun": "bundle",
            "anon": "anon", "nc": "noconn"}.get(e[0], e[0])


def width_of(spec, mi, e):
    from ..shrink import _width_of
    return _width_of(spec, mi, e)


def mutants(spec):
    """Yield (fault_class, site, mutant_spec)."""
    mods = reachable(spec)
    top = spec["top"]

    def clone():
        s = copy.deepcopy(spec)
        s.pop("features", None)
        return s

    def new_sig(s, mi, w):
        m = s["modules"][mi]
        name = "zq%d" % len(m["sigs"])
        m["sigs"].append([name, w, "sig"])
        return name

    for mi in mods:
        m = spec["modules"][mi]
        depth = "top" if mi == top else "deep"
        portinfo = {}
        for inst in m["insts"]:
            for p in model.target_iface(spec, inst["of"]):
                portinfo[(inst["name"], p[1])] = (inst, p)
        referenced = set()

        def collect(e):
            if isinstance(e, list):
                if e and e[0] == "pref":
                    referenced.add((e[1], e[2]))
                for x in e:
                    collect(x)
        for inst in m["insts"]:
            for _, e in inst["conns"]:
                collect(e)
        for ii, inst in enumerate(m["insts"]):
            iface = {p[1]: p for p in model.target_iface(spec, inst["of"])}
            kind = inst.get("kind", "inst")
            last = {}
            for ci, (pname, e) in enumerate(inst["conns"]):
                last[pname] = ci
            for pname, ci in last.items():
                e = inst["conns"][ci][1]
                p = iface.get(pname)
                if p is None:
                    continue
                site = "%s/%s/%s" % (depth, kind, expr_kind(e))

                def setconn(s, newe):
                    s["modules"][mi]["insts"][ii]["conns"][ci][1] = newe

                if p[0] == "sig" and e[0] != "nc":
                    w = p[2]
                    bad = w + 1
                    if kind == "array" and inst["n"] * w == bad:
                        bad = w + 2
                    # -- width mismatch
                    s = clone()
                    if e[0] == "sig":
                        setconn(s, ["sig", new_sig(s, mi, bad)])
                    elif e[0] == "anon":  # pair members
                        e2 = copy.deepcopy(e)
                        mw = width_of(spec, mi, e[1][0][1])
                        e2[1][0][1] = ["sig", new_sig(s, mi, (mw or w) + 1)]
                        setconn(s, e2)
                    elif e[0] == "bun":
                        s = None
                    else:
                        setconn(s, ["cat", [copy.deepcopy(e), ["sig", new_sig(s, mi, bad - w)]]])
                    if s is not None:
                        cls = "width_mismatch" if kind != "array" else "width_mismatch_array"
                        yield cls, site, s
                    if e[0] == "pref":
                        for (iname2, pn2), (inst2, p2) in portinfo.items():
                            if p2[0] == "sig" and p2[2] != w and inst2.get("kind", "inst") == "inst" and (iname2, pn2) != (inst["name"], pname):
                                c2 = dict(inst2["conns"]).get(pn2) if False else None
                                nc = any(pp == pn2 and ee[0] == "nc" for pp, ee in inst2["conns"])
                                if nc:
                                    continue
                                s = clone(); setconn(s, ["pref", iname2, pn2])
                                yield "width_mismatch", "%s/%s/portref_retarget" % (depth, kind), s
                                break
                    # -- bad index
                    if kind == "inst":
                        parents = []
                        for sg in m["sigs"]:
                            parents.append((["sig", sg[0]], sg[1], "signal"))
                            if sg[1] >= 2:
                                parents.append((["slice", ["sig", sg[0]], [0, sg[1] - 1, None]], sg[1] - 1, "slice"))
                            break
                        if len(m["sigs"]) >= 2:
                            a, b = m["sigs"][0], m["sigs"][1]
                            parents.append((["cat", [["sig", a[0]], ["sig", b[0]]]], a[1] + b[1], "concat"))
                        for (iname2, pn2), (inst2, p2) in portinfo.items():
                            if p2[0] == "sig" and inst2.get("kind", "inst") == "inst" and inst2["name"] != inst["name"] and not any(pp == pn2 and ee[0] == "nc" for pp, ee in inst2["conns"]) and any(pp == pn2 and not gen._has_ref(ee) for pp, ee in inst2["conns"]):
                                parents.append((["pref", iname2, pn2], p2[2], "portref"))
                                break
                        for b in m["bundles"]:
                            lv = model.bundle_leaves(spec, b[1])
                            path, lw = lv[0][0], lv[0][1]
                            be = ["bun", b[0]]
                            for seg in path:
                                be = ["bref", be, seg]
                            parents.append((be, lw, "bundleref"))
                            break
                        for pe, pw, pk in parents:
                            if w == 1:
                                for idx in (pw, -pw - 1):
                                    s = clone(); setconn(s, ["slice", copy.deepcopy(pe), idx])
                                    yield "index_out_of_range", "%s/%s_parent" % (depth, pk), s
                            if pk not in ("portref", "bundleref"):
                                s = clone(); setconn(s, ["slice", copy.deepcopy(pe), [1, 1, None]])
                                yield "empty_slice", "%s/%s_parent" % (depth, pk), s
                    # -- orphan / foreign objects
                    for own in ("orphan", "foreign"):
                        s = clone(); setconn(s, [own, w])
                        yield own + "_signal", "%s/%s/direct" % (depth, kind), s
                        s = clone(); setconn(s, ["slice", [own, w + 1], [0, w, None]])
                        yield own + "_signal", "%s/%s/in_slice" % (depth, kind), s
                        s = clone()
                        if w >= 2:
                            setconn(s, ["cat", [["sig", new_sig(s, mi, w - 1)], [own, 1]]])
                        else:
                            setconn(s, ["cat", [[own, 1]]])
                        yield own + "_signal", "%s/%s/in_concat" % (depth, kind), s
                    # -- a slice object owned (and used) by a sub-module of this module
                    kids = [i2["of"][1] for i2 in m["insts"] if i2["of"][0] == "mod"]
                    if kids:
                        s = clone(); setconn(s, ["child_slice", kids[0], w])
                        s["modules"][kids[0]]["style"] = "proc"
                        yield "foreign_signal", "%s/%s/slice_object_of_a_submodule" % (depth, kind), s
                    # -- objects the module held once, displaced since by another object of the same name
                    s = clone(); setconn(s, ["evicted", w]); s["modules"][mi]["style"] = "proc"; s["modules"][mi]["late"] = False
                    yield "orphan_signal", "%s/%s/evicted" % (depth, kind), s
                    s = clone(); setconn(s, ["evicted", w, "wider"]); s["modules"][mi]["style"] = "proc"; s["modules"][mi]["late"] = False
                    yield "orphan_signal", "%s/%s/evicted_by_wider" % (depth, kind), s
                    if kind == "inst":
                        for ck, c in enumerate(spec["cells"]):
                            cp = [q for q in model.cell_ports(spec, ck) if q[1] == w]
                            if cp:
                                s = clone(); setconn(s, ["pref_evicted", ["cell", ck], cp[0][0]]); s["modules"][mi]["style"] = "proc"; s["modules"][mi]["late"] = False
                                yield "orphan_instance", "%s/portref_target_evicted" % depth, s
                                break
                    if kind == "inst":
                        for ck, c in enumerate(spec["cells"]):
                            cp = [q for q in model.cell_ports(spec, ck) if q[1] == w]
                            if cp:
                                for own in ("pref_orphan", "pref_foreign"):
                                    s = clone(); setconn(s, [own, ["cell", ck], cp[0][0]])
                                    yield own.replace("pref_", "") + "_instance", "%s/portref_target" % depth, s
                                break
                    # -- non-existent port reference
                    if kind == "inst":
                        others = [i2 for i2 in m["insts"] if i2["name"] != inst["name"] and i2.get("kind", "inst") == "inst"]
                        if others:
                            s = clone(); setconn(s, ["pref", others[0]["name"], "nope9"])
                            yield "nonexistent_port_ref", "%s/portref" % depth, s
                    # -- no-connect also referenced
                    if kind == "inst" and (inst["name"], pname) not in referenced:
                        for (iname2, pn2), (inst2, p2) in portinfo.items():
                            if p2[0] == "sig" and p2[2] == w and (iname2, pn2) != (inst["name"], pname) and inst2.get("kind", "inst") == "inst":
                                ci2 = [k for k, (pp, _) in enumerate(inst2["conns"]) if pp == pn2]
                                if not ci2 or (iname2, pn2) in referenced:
                                    continue
                                i2i = [k for k, x in enumerate(m["insts"]) if x["name"] == iname2][0]
                                ref = ["pref", inst["name"], pname]
                                forms = [("direct", ref), ("via_slice", ["slice", ref, [0, w, None]]), ("via_concat", ["cat", [ref]])]
                                if w >= 2:
                                    forms.append(("via_concat_of_slices", ["cat", [["slice", ref, [0, 1, None]], ["slice", ref, [1, w, None]]]]))
                                for fname, fexpr in forms:
                                    s = clone(); setconn(s, ["nc", "zzn", None])
                                    s["modules"][mi]["insts"][i2i]["conns"][ci2[-1]][1] = fexpr
                                    yield "noconn_referenced", "%s/%s" % (depth, fname), s
                                break
                if p[0] == "bun" and e[0] != "nc":
                    leaves = model.bundle_leaves(spec, p[2])
                    if e[0] == "anon":
                        # width mismatch in one member, missing member, extra member, orphan member
                        for mj, (mem, sub) in enumerate(e[1]):
                            if sub[0] in ("anon", "bun", "bref", "pref"):
                                mw = None
                                try:
                                    mw = width_of(spec, mi, sub)
                                except Exception:
                                    pass
                                if mw is None:
                                    continue
                            else:
                                mw = width_of(spec, mi, sub)
                            badw = mw + 1
                            if kind == "array" and inst["n"] * mw == badw:
                                badw = mw + 2  # n*w would be legal per-element wiring once the bundle is flattened
                            s = clone(); e2 = copy.deepcopy(e); e2[1][mj][1] = ["sig", new_sig(s, mi, badw)]; setconn(s, e2)
                            yield "width_mismatch", "%s/%s/anon_member" % (depth, kind), s
                            s = clone(); e2 = copy.deepcopy(e); e2[1][mj][1] = ["orphan", mw]; setconn(s, e2)
                            yield "orphan_signal", "%s/%s/in_anon" % (depth, kind), s
                            break
                        if len(e[1]) >= 1:
                            s = clone(); e2 = copy.deepcopy(e); del e2[1][0]
                            if e2[1]:
                                setconn(s, e2)
                                yield "missing_member", "%s/%s/anon" % (depth, kind), s
                        s = clone(); e2 = copy.deepcopy(e); e2[1].append(["zzextra", ["sig", new_sig(s, mi, 1)]]); setconn(s, e2)
                        yield "extra_member", "%s/%s/anon" % (depth, kind), s
                        nested = [lf[0] for lf in leaves if len(lf[0]) >= 2]
                        if nested:
                            # ... a surplus scalar member named exactly like the flattened name of a nested leaf (`ctl_en` beside `ctl.en`)
                            s = clone(); e2 = copy.deepcopy(e); e2[1].append(["_".join(nested[0]), ["sig", new_sig(s, mi, 1)]]); setconn(s, e2)
                            yield "extra_member", "%s/%s/anon_named_like_nested_leaf" % (depth, kind), s
                    if e[0] == "bun":
                        # a bundle instance of a structurally equal definition with one leaf width changed
                        s = clone()
                        bdef = copy.deepcopy(spec["bundles"][p[2]])
                        if bdef["sigs"] and not bdef.get("builtin"):
                            bdef["name"] = bdef["name"] + "w"
                            bdef["sigs"][0][1] += 1
                            if kind == "array" and inst["n"] * (bdef["sigs"][0][1] - 1) == bdef["sigs"][0][1]:
                                bdef["sigs"][0][1] += 1  # n*w would be legal per-element wiring once the bundle is flattened
                            s["bundles"].append(bdef)
                            bname = "zzb%d" % len(s["modules"][mi]["bundles"])
                            s["modules"][mi]["bundles"].append([bname, len(s["bundles"]) - 1, False, False, None, "ctor"])
                            setconn(s, ["bun", bname])
                            yield "width_mismatch", "%s/%s/named_bundle_member" % (depth, kind), s
                        # ... and of a definition that has every member of the port's bundle plus one more
                        s = clone()
                        bdef = copy.deepcopy(spec["bundles"][p[2]])
                        if not bdef.get("builtin"):
                            bdef["name"] = bdef["name"] + "x"
                            bdef["sigs"].append(["zzextra", 1, "plain"])
                            s["bundles"].append(bdef)
                            bname = "zzx%d" % len(s["modules"][mi]["bundles"])
                            s["modules"][mi]["bundles"].append([bname, len(s["bundles"]) - 1, False, False, None, "ctor"])
                            setconn(s, ["bun", bname])
                            yield "extra_member", "%s/%s/named_bundle_with_one_member_more" % (depth, kind), s
                        for own in ("orphan_bun", "foreign_bun"):
                            s = clone(); setconn(s, [own, p[2]])
                            yield own.replace("_bun", "") + "_bundle", "%s/%s/direct" % (depth, kind), s
                        s = clone(); setconn(s, ["bref", ["bun", e[1]], "nope9"])
                        yield "nonexistent_bundle_member", "%s/%s/bundleref" % (depth, kind), s
                # -- missing connection
                if (inst["name"], pname) not in referenced:
                    s = clone()
                    s["modules"][mi]["insts"][ii]["conns"] = [c for c in s["modules"][mi]["insts"][ii]["conns"] if c[0] != pname]
                    yield "missing_connection", "%s/%s/%s_port" % (depth, kind, "bundle" if p[0] == "bun" else "scalar"), s
                    # ... missing because it was connected and then disconnect()-ed (an operation history ending without it)
                    if not any(mm.get("history") for mm in spec["modules"]) and inst.get("via") != "mult_late":
                        s = clone()
                        mm = s["modules"][mi]
                        mm["history"] = [[i2["name"], pn, copy.deepcopy(ee), "call"] for i2 in mm["insts"] for pn, ee in i2["conns"]]
                        mm["history"].append([inst["name"], pname, None, "disconnect"])
                        mm["insts"][ii]["conns"] = [c for c in mm["insts"][ii]["conns"] if c[0] != pname]
                        yield "missing_connection", "%s/%s/%s_port_disconnected" % (depth, kind, "bundle" if p[0] == "bun" else "scalar"), s
            # -- extra connection
            if m["sigs"]:
                s = clone(); s["modules"][mi]["insts"][ii]["conns"].append(["zz9", ["sig", m["sigs"][0][0]]])
                yield "extra_connection", "%s/%s%s" % (depth, kind, "" if iface else "/portless_target"), s
        # -- extra connection on an instance of an external cell that has no ports at all
        if m["sigs"]:
            s = clone()
            s["cells"].append({"kind": "ext", "name": "XNoPorts", "ports": []})
            s["modules"][mi]["insts"].append({"name": "zznp", "of": ["cell", len(s["cells"]) - 1], "kind": "inst", "tag": 999,
                                              "conns": [["zz9", ["sig", m["sigs"][0][0]]]]})
            if s["modules"][mi].get("history"):
                s["modules"][mi]["history"].append(["zznp", "zz9", ["sig", m["sigs"][0][0]], "call"])
            yield "extra_connection", "%s/inst/portless_target/ext" % depth, s
        # -- circular instantiation
        s = clone(); s["cycle"] = {"kind": "self", "mod": mi}
        yield "circular_instantiation", "%s/self" % depth, s
        for inst in m["insts"]:
            if inst["of"][0] == "mod":
                s = clone(); s["cycle"] = {"kind": "two", "mod": mi, "child": inst["of"][1]}
                yield "circular_instantiation", "%s/two_cycle" % depth, s
                break
        # -- unnamed module
        s = clone(); s["modules"][mi]["name"] = None; s["modules"][mi]["style"] = "proc"
        yield "unnamed_module", depth, s
        s = clone(); s["modules"][mi]["name"] = ""; s["modules"][mi]["style"] = "proc"; s["modules"][mi].pop("bare", None)
        yield "unnamed_module", depth + "/empty_string", s
    # -- name clash
    for a in mods:
        for b in mods:
            if a < b:
                s = clone()
                s["modules"][b]["name"] = s["modules"][a]["name"]
                s["modules"][a]["style"] = s["modules"][b]["style"] = "proc"
                s["modules"][a].pop("bare", None); s["modules"][b].pop("bare", None)
                yield "name_clash", "top" if top in (a, b) else "deep", s


def apply_cycle(b, spec):
    h = b.h
    cyc = spec.get("cycle")
    if not cyc:
        return
    k = cyc["mod"]
    mod = b.module(k)

    def conns_for(target_idx, host):
        out = {}
        for p in model.module_iface(spec, target_idx):
            if p[0] == "sig":
                out[p[1]] = host.add(h.Signal(name="cyc_" + p[1], width=p[2]))
            else:
                out[p[1]] = host.add(b.bundle(p[2])(), name="cyc_" + p[1])
        return out
    if cyc["kind"] == "self":
        mod.add(h.Instance(of=mod, name="cyc")(**conns_for(k, mod)))
    else:
        child = b.module(cyc["child"])
        child.add(h.Instance(of=mod, name="cyc")(**conns_for(k, child)))


def run_mutant(mspec):
    """In a pristine child: -> {"elaborate": "raised:<T>"|"returned", "to_proto":..., "netlist":...}"""
    env.setup_paths()
    import hdl21 as h
    out = {}
    try:
        b = Builder(mspec)
        top = b.module(mspec["top"])
        apply_cycle(b, mspec)
    except Exception as e:
        return {"build": "raised:%s" % type(e).__name__}
    try:
        h.elaborate(top)
        out["elaborate"] = "returned"
    except RecursionError as e:
        out["elaborate"] = "raised:RecursionError"
    except Exception as e:
        out["elaborate"] = "raised:%s" % type(e).__name__
        # "never return a package for such a design": not on a second or third attempt either
        for attempt in (2, 3):
            try:
                h.to_proto(top)
                out["to_proto_retry"] = "returned"
                break
            except Exception:
                pass
            except RecursionError:
                pass
        return out
    try:
        pkg = h.to_proto(top)
        out["to_proto"] = "returned"
        out["pkg_modules"] = len(pkg.modules)
    except Exception as e:
        out["to_proto"] = "raised:%s" % type(e).__name__
    try:
        s = io.StringIO()
        h.netlist(top, s, fmt="spice")
        out["netlist"] = "returned"
    except Exception as e:
        out["netlist"] = "raised:%s" % type(e).__name__
    return out


def run_revised(spec, ck, how):
    """In a pristine child: the (valid) design is elaborated; then the external cell `ck` is revised in place - a pin appended,
    its first pin widened, or its last pin removed - and a new parent wires an instance of it as the OLD pin list asked."""
    env.setup_paths()
    import hdl21 as h
    try:
        b = Builder(spec)
        top = b.module(spec["top"])
        h.elaborate(top)
        X = b.cell(ck)
        old = [(p.name, p.width) for p in X.port_list]
        if how == "append":
            X.port_list.append(h.Input(name="zznew", width=1))
        elif how == "widen":
            p0 = X.port_list[0]
            X.port_list[0] = h.Signal(name=p0.name, width=p0.width + 1, vis=p0.vis, direction=p0.direction)
        else:
            X.port_list.pop()
        par_ = h.Module(name="AfterRevision")
        conns = {nm: par_.add(h.Signal(name="r_" + nm, width=w)) for nm, w in old}
        par_.add(X(tag=7)(**conns), name="x")
    except Exception as e:
        return {"build": "raised:%s" % type(e).__name__}
    out = {}
    try:
        h.elaborate(par_)
        out["elaborate"] = "returned"
    except Exception as e:
        out["elaborate"] = "raised:%s" % type(e).__name__
        return out
    try:
        h.to_proto(par_)
        out["to_proto"] = "returned"
    except Exception as e:
        out["to_proto"] = "raised:%s" % type(e).__name__
    return out


def eval_revised(res, base_hash, spec, ck, how):
    cls = {"append": "missing_connection", "widen": "width_mismatch", "remove": "extra_connection"}[how]
    site = "external_cell_revised_after_use/" + how
    v = par.pristine(run_revised, spec, ck, how)
    if par.is_exc(v):
        res.harness_error("%s %s %s" % (v[1], v[2], v[3][-800:]))
        return
    case = {"fault": cls, "site": site, "spec": spec, "revise": [ck, how]}
    key = "%s|%s|%s|%d" % (base_hash, cls, site, ck)
    if "build" in v:
        res.notes["revision_not_built:" + v["build"]] += 1
        return
    for call in ("elaborate", "to_proto"):
        if v.get(call) == "returned":
            res.fail("%s_accepts:%s:%s" % (call, cls, site), case,
                     "%s returned normally for an instance wired as the cell's pin list read before it was revised (%s) (results: %s)" % (call, how, v))
    res.case(case, True, [cls, "site:" + site], key=key)


def eval_mutant(res, base_hash, cls, site, mspec):
    try:
        model.flatten(mspec)
        res.notes["mutant_not_ill_formed_discarded:" + cls] += 1
        return
    except model.ModelError:
        pass
    except RecursionError:
        pass
    try:
        v = par.pristine(run_mutant, mspec)
    except par.ChildCrash as e:
        res.harness_error(str(e))
        return
    if par.is_exc(v):
        res.harness_error("%s %s %s" % (v[1], v[2], v[3][-800:]))
        return
    case = {"fault": cls, "site": site, "spec": mspec}
    key = "%s|%s|%s" % (base_hash, cls, site)
    nt = not (site.endswith("/inst/signal") and site.startswith("top") and cls in ("width_mismatch", "missing_connection"))
    if "build" in v:
        res.notes["rejected_at_construction:" + cls] += 1
        res.case(case, nt, [cls, "site:" + site], key=key)
        return
    for call in ("elaborate", "to_proto", "netlist", "to_proto_retry"):
        if v.get(call) == "returned":
            res.fail("%s_accepts:%s:%s" % (call, cls, site.split("/", 1)[-1] if "/" in site else site), case,
                     "%s returned normally for a design with fault %s at %s (results: %s)" % (call, cls, site, v))
    res.case(case, nt, [cls, "site:" + site], key=key)


def shard(idx, n, tier):
    env.setup_paths()
    import hdl21  # noqa
    par.server()
    import hypothesis
    from hypothesis import given, settings, HealthCheck, Phase
    res = core.Result()
    nbase = (1600 if tier == "thorough" else 96) // n
    from hypothesis import strategies as st
    opts = gen.Opts(max_modules=3, max_insts=3, wide=False)
    # a bundle-heavy variant, so that faults behind bundle / anonymous-bundle connections are planted as often as scalar ones
    opts_b = gen.Opts(min_modules=2, max_modules=3, max_insts=3, wide=False, bundle_port_pct=95, prims=False, arrays=True, pair_pct=5,
                      slices=False, concats=False)

    @hypothesis.seed(env.subseed(PID, idx))
    @settings(max_examples=max(1, nbase), database=None, deadline=None, derandomize=False,
              suppress_health_check=list(HealthCheck), phases=[Phase.generate], report_multiple_bugs=False)
    @given(st.integers(0, 2).flatmap(lambda k: gen.designs(opts_b if k == 0 else opts)))
    def run(spec):
        try:
            model.flatten(spec)
        except model.ModelError:
            res.notes["base_invalid"] += 1
            return
        bh = env.canon_hash({k: spec[k] for k in spec if k != "features"})
        ms = list(mutants(spec))
        res.notes["mutants_enumerated"] += len(ms)
        if len(ms) > MAX_MUTANTS:
            res.notes["mutants_beyond_cap_skipped"] += len(ms) - MAX_MUTANTS
            step = len(ms) / MAX_MUTANTS
            rare = [x for x in ms if "portless" in x[1] or "nested_leaf" in x[1] or "one_member_more" in x[1]]  # rare sites are never thinned out
            ms = [ms[int(i * step)] for i in range(MAX_MUTANTS)]
            ms += [x for x in rare if not any(x is y for y in ms)]
        for cls, site, mspec in ms:
            eval_mutant(res, bh, cls, site, mspec)
        base = {k: spec[k] for k in spec if k != "features"}
        used = sorted({i["of"][1] for m in spec["modules"] for i in m["insts"] if i["of"][0] == "cell" and spec["cells"][i["of"][1]]["kind"] == "ext"})
        for ck in used[:2]:
            for how in ("append", "widen", "remove"):
                if how != "remove" or len(spec["cells"][ck]["ports"]) >= 2:
                    eval_revised(res, bh, base, ck, how)
        res.notes["base_designs"] += 1

    run()
    return res


def replay(case):
    res = core.Result()
    if case.get("revise"):
        eval_revised(res, "replay", case["spec"], case["revise"][0], case["revise"][1])
    else:
        eval_mutant(res, "replay", case["fault"], case["site"], case["spec"])
    if res.harness_errors:
        raise RuntimeError(res.harness_errors[0])
    return [(sig, lst[0]["detail"]) for sig, lst in res.failures.items()]


def main(tier):
    t0 = time.time()
    env.setup_paths()
    import hdl21  # noqa
    res = par.run_shards(shard, extra=(tier,))
    return core.finish(PID, LEVEL, tier, res, RULE, ASSUME, replay, t0, min_nontrivial=200)
