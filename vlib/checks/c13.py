"""C13 - Parameter values reach the package unchanged.

Reference encoder written from the statement; values from typed Hypothesis strategies for every
primitive of hdl21.primitives and for external modules with dict / paramclass / Scalar parameters."""
import time, math, json
from decimal import Decimal
from fractions import Fraction
from enum import Enum

from .. import env, core, par

PID = "C13"
LEVEL = "exploration"
RULE = ("Hypothesis-generated parameter assignments for each of the 21 primitives in hdl21.primitives and for external "
        "modules with dict, flat-paramclass, Scalar-typed and re-used library (pulse-source, resistor) parameter classes (Prefixed with all 21 prefixes and 1..40-digit "
        "mantissas, ints to +-2^63, floats incl. subnormals/extremes, Decimals, canonical numeric strings, non-numeric "
        "strings incl. padded/unicode/empty, Literals, str enums, None, raw 0/0.0/''), exported through to_proto and "
        "compared with a reference encoder; plus to_scalar on every value form; plus (1 case in 40) order cases: two values - "
        "often the same number written differently, or the same digits under another prefix - exported one after the other (as two modules, or as two instances of one module) in "
        "either order in a fresh process must each export byte-for-byte as they do alone in a fresh process. Non-trivial = a non-integral value with >15 "
        "significant digits, or a prefix other than UNIT, or a string; distinct by canonical case text.")
ASSUME = ["a float converts to the Prefixed of its repr() digits (Decimal(repr(x))) or of its exact binary value - either accepted",
          "ambiguous strings (whitespace-padded numerics, '1_000') and Decimal-valued external parameters are recorded, not asserted",
          "ints outside int64 raising at export is recorded as 'overflow', not asserted",
          "vlsir.primitives names as declared by vlsirtools.primitives"]

PREFIX_EXPS = [-24, -21, -18, -15, -12, -9, -6, -3, -2, -1, 0, 1, 2, 3, 6, 9, 12, 15, 18, 21, 24]
PRIM_MAP = {"DcVoltageSource": "vdc", "PulseVoltageSource": "vpulse", "SineVoltageSource": "vsin", "CurrentSource": "isource",
            "IdealResistor": "resistor", "IdealCapacitor": "capacitor", "IdealInductor": "inductor",
            "VoltageControlledVoltageSource": "vcvs", "CurrentControlledVoltageSource": "ccvs",
            "VoltageControlledCurrentSource": "vccs", "CurrentControlledCurrentSource": "cccs"}
PULSE_RENAME = {"delay": "td", "rise": "tr", "fall": "tf", "width": "tpw", "period": "tper", "v1": "v1", "v2": "v2"}

_H = {}


def H():
    if not _H:
        env.setup_paths()
        import hdl21 as h
        import hdl21.primitives as hp
        import vlsir
        from hdl21.prefix import Prefix, Prefixed
        from hdl21.scalar import to_scalar
        _H.update(h=h, hp=hp, vlsir=vlsir, Prefix=Prefix, Prefixed=Prefixed, to_scalar=to_scalar)

        class Color(Enum):
            RED = "red"
            BLUE = "blue one"
            EMPTY = ""
        _H["Color"] = Color

        @h.paramclass
        class FlatP:
            i = h.Param(dtype=int, desc="int", default=1)
            f = h.Param(dtype=float, desc="float", default=1.0)
            s = h.Param(dtype=str, desc="str", default="x")
            oi = h.Param(dtype=type(None) | int if False else __import__("typing").Optional[int], desc="opt int", default=None)
            os_ = h.Param(dtype=__import__("typing").Optional[str], desc="opt str", default=None)
            e = h.Param(dtype=Color, desc="enum", default=Color.RED)
            lit = h.Param(dtype=__import__("typing").Optional[h.Literal], desc="literal", default=None)
            pre = h.Param(dtype=__import__("typing").Optional[h.Prefixed], desc="prefixed", default=None)

        @h.paramclass
        class ScalarP:
            a = h.Param(dtype=h.Scalar, desc="a", default=0)
            b = h.Param(dtype=__import__("typing").Optional[h.Scalar], desc="b", default=None)
            c = h.Param(dtype=__import__("typing").Optional[h.Scalar], desc="c", default=None)
        ports = [h.Port(name="p"), h.Port(name="n")]
        _H["XD"] = h.ExternalModule(name="XD", port_list=ports, paramtype=dict, domain="verif")
        _H["XF"] = h.ExternalModule(name="XF", port_list=[h.Port(name="p"), h.Port(name="n")], paramtype=FlatP, domain="verif")
        _H["XS"] = h.ExternalModule(name="XS", port_list=[h.Port(name="p"), h.Port(name="n")], paramtype=ScalarP, domain="verif")
        _H["FlatP"], _H["ScalarP"] = FlatP, ScalarP
        # external modules re-using the library's own parameter classes (a behavioural pulse / sine source, a custom resistor)
        _H["XP"] = h.ExternalModule(name="XP", port_list=[h.Port(name="p"), h.Port(name="n")], paramtype=hp.PulseVoltageSource.paramtype, domain="verif")
        _H["XR"] = h.ExternalModule(name="XR", port_list=[h.Port(name="p"), h.Port(name="n")], paramtype=hp.IdealResistor.paramtype, domain="verif")
    return _H


# ---------------------------------------------------------------------------
# value encoding (JSON-able case values)  <->  python objects


def dec(v):
    g = H()
    t = v["t"]
    if t == "none":
        return None
    if t == "int":
        return int(v["v"])
    if t == "float":
        return float.fromhex(v["v"])
    if t == "dec":
        return Decimal(v["v"])
    if t == "str":
        return v["v"]
    if t == "pref":
        return g["Prefixed"](number=Decimal(v["v"][0]), prefix=g["Prefix"](v["v"][1]))
    if t == "lit":
        return g["h"].Literal(v["v"])
    if t == "enum":
        return g[v["cls"]][v["v"]] if v.get("cls") == "Color" else getattr(getattr(g["hp"], v["cls"]), v["v"])
    raise ValueError(t)


import re
CANON_NUM = re.compile(r"^[+-]?(\d+(\.\d*)?|\.\d+)([eE][+-]?\d+)?$")


def scalar_expect(v):
    """What to_scalar must return for case value v: ("num", set of acceptable Fractions, prefix or None) | ("lit", text) | ("amb",)"""
    t = v["t"]
    if t == "int":
        return ("num", {Fraction(int(v["v"]))}, None)
    if t == "float":
        x = float.fromhex(v["v"])
        if math.isnan(x) or math.isinf(x):
            return ("amb",)
        return ("num", {Fraction(Decimal(repr(x))), Fraction(x)}, None)
    if t == "dec":
        d = Decimal(v["v"])
        if not d.is_finite():
            return ("amb",)
        return ("num", {Fraction(d)}, None)
    if t == "str":
        s = v["v"]
        if CANON_NUM.match(s):
            return ("num", {Fraction(Decimal(s))}, None)
        try:
            if not Decimal(s).is_finite():
                return ("lit", s)  # a spelling of infinity / not-a-number has no decimal value: it is one of the "other" strings
            return ("amb",)  # python's Decimal accepts it (padding, underscores): not asserted
        except Exception:
            pass
        if s.strip() != s:
            try:
                Decimal(s.strip())
                return ("amb",)
            except Exception:
                pass
        return ("lit", s)
    if t == "pref":
        return ("num", {Fraction(Decimal(v["v"][0])) * Fraction(10) ** v["v"][1]}, v["v"][1])
    if t == "lit":
        return ("lit", v["v"])
    return ("amb",)


def pval(p):
    return Fraction(p.number) * Fraction(10) ** p.prefix.value


def check_to_scalar(v):
    g = H()
    out = []
    exp = scalar_expect(v)
    if exp[0] == "amb":
        return out, "ambiguous"
    try:
        r = g["to_scalar"](dec(v))
    except Exception as e:
        return [("to_scalar_raises:%s" % type(e).__name__, "to_scalar(%r) raised %r" % (v, e))], "ok"
    if exp[0] == "num":
        if not isinstance(r, g["Prefixed"]):
            out.append(("to_scalar_not_prefixed", "to_scalar(%r) = %r, expected a Prefixed" % (v, r)))
        elif pval(r) not in exp[1]:
            out.append(("to_scalar_value", "to_scalar(%r) = %s, whose value %s differs from the input's decimal value" % (v, r, pval(r))))
        elif exp[2] is not None and r.prefix.value != exp[2]:
            out.append(("to_scalar_prefix", "to_scalar(%r) changed the prefix to %s" % (v, r.prefix)))
    else:
        if not isinstance(r, g["h"].Literal) or r.text != exp[1]:
            out.append(("to_scalar_literal", "to_scalar(%r) = %r, expected Literal with identical text" % (v, r)))
    return out, "ok"


# ---------------------------------------------------------------------------
# reference encoder


def expect_param(v, scalar_field):
    """Expected exported ParamValue for case value v: one of
       ("absent",) ("int", n) ("double", x) ("lit", text) ("pref", Fraction number, prefix exp) ("amb",) ("overflow",)"""
    t = v["t"]
    if t == "none":
        return ("absent",)
    if scalar_field:
        e = scalar_expect(v)
        if e[0] == "amb":
            return ("amb",)
        if e[0] == "lit":
            return ("lit", e[1])
        if t == "pref":
            return ("pref", {Fraction(Decimal(v["v"][0]))}, v["v"][1])
        return ("pref", e[1], 0)
    if t == "int":
        n = int(v["v"])
        if not (-2**63 <= n < 2**63):
            return ("overflow",)
        return ("int", n)
    if t == "float":
        return ("double", float.fromhex(v["v"]))
    if t == "str":
        return ("lit", v["v"])
    if t == "lit":
        return ("lit", v["v"])
    if t == "enum":
        return ("lit", dec(v).value)
    if t == "pref":
        return ("pref", {Fraction(Decimal(v["v"][0]))}, v["v"][1])
    if t == "dec":
        return ("amb",)
    return ("amb",)


def read_param(pv):
    from ..pkgread import _prefix_exp
    w = pv.WhichOneof("value")
    if w == "int64_value":
        return ("int", pv.int64_value)
    if w == "double_value":
        return ("double", pv.double_value)
    if w == "literal":
        return ("lit", pv.literal)
    if w == "string_value":
        return ("string", pv.string_value)
    if w == "prefixed":
        p = pv.prefixed
        n = p.WhichOneof("number")
        if n == "int64_value":
            return ("pref", Fraction(p.int64_value), _prefix_exp(p.prefix), "int")
        if n == "string_value":
            return ("pref", Fraction(Decimal(p.string_value)), _prefix_exp(p.prefix), "str")
        if n == "double_value":
            return ("pref_double", p.double_value, _prefix_exp(p.prefix))
    return ("unset",)


def same_double(a, b):
    return (a == b and math.copysign(1, a) == math.copysign(1, b)) or (math.isnan(a) and math.isnan(b))


_counter = [0]


def check_instance(case):
    g = H()
    h = g["h"]
    out = []
    kind = case["kind"]
    params = {k: dec(v) for k, v in case["params"].items()}
    scalar_fields = set()
    rename = {}
    try:
        if kind == "prim":
            prim = getattr(g["hp"], case["prim"])
            for k, p in prim.paramtype.__params__.items():
                if "Prefixed" in str(p.dtype):
                    scalar_fields.add(k)
            call = prim(**params)
            if prim.primtype.name == "IDEAL":
                exp_dom, exp_name = "vlsir.primitives", PRIM_MAP[case["prim"]]
            else:
                exp_dom, exp_name = "hdl21.primitives", case["prim"]
            if case["prim"] == "PulseVoltageSource":
                rename = PULSE_RENAME
        elif kind == "ext":
            X = g[case["ext"]]
            if case["ext"] == "XS":
                scalar_fields = {"a", "b", "c"}
            if case["ext"] in ("XP", "XR"):
                scalar_fields = {k for k, p in X.paramtype.__params__.items() if "Prefixed" in str(p.dtype)}
            call = X(**params) if case["ext"] != "XD" or not case.get("as_dict") else X(dict(params))
            exp_dom, exp_name = "verif", case["ext"]
        else:
            raise ValueError(kind)
    except Exception as e:
        # a primitive / paramclass refusing a value when it is constructed (e.g. Bipolar's width > 0 rule) is a
        # rejection, not a loss of a value: counted, never a failure
        return [], {"construct_rejected:%s" % type(e).__name__: 1}
    _counter[0] += 1
    m = h.Module(name="T%d" % _counter[0])
    inst = call()
    for pn in call.ports:
        sig = m.add(h.Signal(name="n_" + pn))
        inst.connect(pn, sig)
    m.add(inst, name="i")
    expects = {k: expect_param(v, k in scalar_fields) for k, v in case["params"].items()}
    try:
        pkg = h.to_proto(m)
    except Exception as e:
        if any(x[0] in ("overflow", "amb") for x in expects.values()):
            return [], {"export_rejected_ambiguous_or_overflow": 1}
        return [("export_raises:%s" % type(e).__name__, "to_proto raised %s for %s" % (str(e)[-300:], case))], {}
    pinst = pkg.modules[-1].instances[0]
    ref = pinst.module.external
    if (ref.domain, ref.name) != (exp_dom, exp_name):
        out.append(("target_name", "instance of %s exported as %s.%s, expected %s.%s" % (case.get("prim") or case.get("ext"), ref.domain, ref.name, exp_dom, exp_name)))
    got = {}
    for p in pinst.parameters:
        if p.name in got:
            out.append(("dup_param", "parameter %s exported twice" % p.name))
        got[p.name] = read_param(p.value)
    notes = {}
    # defaults: fields not given keep their default; only check the given ones plus "nothing unknown appears"
    if kind == "prim":
        allowed = {rename.get(k, k) for k in getattr(g["hp"], case["prim"]).paramtype.__params__}
    elif case["ext"] == "XD":
        allowed = set(case["params"])
    elif case["ext"] in ("XP", "XR"):
        allowed = set(g[case["ext"]].paramtype.__params__)
    else:
        allowed = set(g["FlatP" if case["ext"] == "XF" else "ScalarP"].__params__)
    for name in got:
        if name not in allowed:
            out.append(("unknown_param", "exported parameter %r is not a parameter of the call" % name))
    for k, exp in expects.items():
        name = rename.get(k, k)
        g_ = got.get(name)
        if exp[0] in ("amb", "overflow"):
            notes["recorded_" + exp[0]] = notes.get("recorded_" + exp[0], 0) + 1
            continue
        what = "%s=%r" % (k, case["params"][k])
        if exp[0] == "absent":
            if g_ is not None:
                out.append(("none_exported", "None-valued %s exported as %r" % (what, g_)))
            continue
        if g_ is None:
            out.append(("param_dropped", "parameter %s missing from the exported instance (names: %s)" % (what, sorted(got))))
            continue
        if exp[0] == "int":
            if g_ != ("int", exp[1]):
                out.append(("int_changed", "%s exported as %r" % (what, g_)))
        elif exp[0] == "double":
            if g_[0] != "double" or not same_double(g_[1], exp[1]):
                out.append(("float_changed", "%s exported as %r" % (what, g_)))
        elif exp[0] == "lit":
            if g_ != ("lit", exp[1]):
                out.append(("text_changed", "%s exported as %r" % (what, g_)))
        elif exp[0] == "pref":
            if g_[0] != "pref":
                out.append(("prefixed_kind", "%s exported as %r, expected a prefixed number" % (what, g_)))
            else:
                if g_[1] not in exp[1]:
                    out.append(("prefixed_digits", "%s exported with number %s" % (what, g_[1])))
                if g_[2] != exp[2]:
                    out.append(("prefixed_prefix", "%s exported with prefix exponent %s, expected %s" % (what, g_[2], exp[2])))
                if g_[3] == "int" and g_[1].denominator != 1:
                    out.append(("prefixed_int_form", "%s exported in int form though non integral" % what))
    return out, notes


def _export_together(carrier, vals):
    """(runs in a pristine child) export ONE module holding one instance per value, in order -> serialized ParamValue of each"""
    g = H()
    h = g["h"]
    try:
        m = h.Module(name="Together")
        for k, v in enumerate(vals):
            val = dec(v)
            call = g["XS"](a=val) if carrier == "XS" else g["XD"](a=val) if carrier == "XD" else g["hp"].IdealResistor(r=val)
            inst = call()
            for pn in call.ports:
                inst.connect(pn, m.add(h.Signal(name="n%d_%s" % (k, pn))))
            m.add(inst, name="i%d" % k)
        pkg = h.to_proto(m)
        out = []
        byname = {i.name: i for i in pkg.modules[-1].instances}
        for k in range(len(vals)):
            ps = [p for p in byname["i%d" % k].parameters if p.name in ("a", "r")]
            out.append(ps[0].value.SerializeToString() if len(ps) == 1 else "missing")
        return out
    except Exception as e:
        return ["raised:%s" % type(e).__name__] * len(vals)


def _export_seq(carrier, vals):
    """(runs in a pristine child) export one module per value, in order -> serialized ParamValue of each, or 'raised:<type>'"""
    g = H()
    h = g["h"]
    out = []
    for k, v in enumerate(vals):
        try:
            val = dec(v)
            if carrier == "XS":
                call = g["XS"](a=val)
            elif carrier == "XD":
                call = g["XD"](a=val)
            else:
                call = g["hp"].IdealResistor(r=val)
            m = h.Module(name="Seq%d" % k)
            inst = call()
            for pn in call.ports:
                inst.connect(pn, m.add(h.Signal(name="n_" + pn)))
            m.add(inst, name="i")
            pkg = h.to_proto(m)
            ps = [p for p in pkg.modules[-1].instances[0].parameters if p.name in ("a", "r")]
            out.append(ps[0].value.SerializeToString() if len(ps) == 1 else "missing")
        except Exception as e:
            out.append("raised:%s" % type(e).__name__)
    return out


def check_order(case):
    """What a value exports as does not depend on what the process exported before it."""
    vals = [case["first"], case["second"]]
    alone = [par.pristine(_export_seq, case["carrier"], [v])[0] for v in vals]
    fn = _export_together if case.get("together") else _export_seq  # two instances of one module / two modules exported in turn
    fwd = par.pristine(fn, case["carrier"], vals)
    rev = par.pristine(fn, case["carrier"], vals[::-1])[::-1]
    if case.get("together") and any(isinstance(x, str) and x.startswith("raised") for x in alone):
        return []  # a value that cannot be exported at all makes the joint export fail as a whole
    out = []
    for k, which in enumerate(("first", "second")):
        for got, how in ((fwd[k], "after" if k else "before"), (rev[k], "before" if k else "after")):
            if got != alone[k]:
                out.append(("export_depends_on_history", "%s exported %s %s through %s gives %r; exported alone in a fresh process it gives %r" % (
                    case[which], how, case["second" if which == "first" else "first"], case["carrier"], _show(got), _show(alone[k]))))
    return out


def _show(b):
    if isinstance(b, str):
        return b
    g = H()
    pv = g["vlsir"].ParamValue()
    pv.ParseFromString(b)
    return str(pv).replace("\n", " ")


def check_case(case):
    if case["kind"] == "to_scalar":
        return check_to_scalar(case["val"])[0]
    if case["kind"] == "order":
        return check_order(case)
    return check_instance(case)[0]


def _vals(case):
    if case["kind"] == "to_scalar":
        return [case["val"]]
    if case["kind"] == "order":
        return [case["first"], case["second"]]
    return list(case["params"].values())


def nontrivial(case):
    vals = _vals(case)
    for v in vals:
        if v["t"] == "str":
            return True
        if v["t"] == "pref" and v["v"][1] != 0:
            return True
        if v["t"] in ("dec", "pref"):
            d = Decimal(v["v"][0] if v["t"] == "pref" else v["v"])
            if d.is_finite() and d != d.to_integral_value() and len(d.as_tuple().digits) > 15:
                return True
        if v["t"] == "float":
            x = float.fromhex(v["v"])
            if math.isfinite(x) and x != int(x) and len(repr(x).replace(".", "").replace("-", "").split("e")[0].strip("0")) > 15:
                return True
    return False


def feats(case):
    vals = _vals(case)
    f = {case["kind"] + ":" + (case.get("prim") or case.get("ext") or case.get("carrier") or "")}
    if case["kind"] == "order":
        a, b = case["first"], case["second"]
        if a["t"] == b["t"] == "pref":
            va = Fraction(Decimal(a["v"][0])) * Fraction(10) ** a["v"][1]
            vb = Fraction(Decimal(b["v"][0])) * Fraction(10) ** b["v"][1]
            if va == vb and a != b:
                f.add("same_value_written_differently")
            if Decimal(a["v"][0]) == Decimal(b["v"][0]) and a["v"][0] != b["v"][0] and a["v"][1] == b["v"][1]:
                f.add("same_mantissa_other_digits")
    for v in vals:
        f.add("val_" + v["t"])
        if v["t"] == "pref" and v["v"][1] != 0:
            f.add("prefix_non_unit")
        if v["t"] in ("int",) and int(v["v"]) == 0:
            f.add("raw_zero")
        if v["t"] == "str" and v["v"] == "":
            f.add("empty_string")
        if v["t"] == "str" and v["v"].strip() != v["v"]:
            f.add("padded_string")
    return sorted(f)


# ---------------------------------------------------------------------------
# strategies


def strategies(tier):
    from hypothesis import strategies as st
    g = H()
    maxd = 40
    digits = st.integers(1, maxd).flatmap(lambda k: st.integers(0, 10 ** k - 1))
    decs = st.tuples(st.booleans(), digits, st.integers(-30, 30)).map(
        lambda t: str(Decimal(("-" if t[0] else "") + str(t[1])).scaleb(t[2])))
    simple_decs = st.tuples(st.booleans(), st.integers(0, 10**6), st.integers(0, 6)).map(
        lambda t: str(Decimal(("-" if t[0] else "") + str(t[1])).scaleb(-t[2])))
    dec_s = st.one_of(decs, simple_decs, st.sampled_from(["0", "1", "1.10", "0.1", "1E+3", "1000000000000000000000000000000", "9223372036854775808", "-0.0"]))
    pref = st.tuples(dec_s, st.sampled_from(PREFIX_EXPS)).map(lambda t: {"t": "pref", "v": [t[0], t[1]]})
    ints = st.one_of(st.integers(-2**63, 2**63 - 1), st.sampled_from([0, 1, -1, 2**63 - 1, -2**63, 2**63, 10**30]), st.integers(-1000, 1000)).map(lambda i: {"t": "int", "v": str(i)})
    floats = st.one_of(st.floats(allow_nan=False, allow_infinity=False),
                       st.sampled_from([0.0, -0.0, 0.1, 1e-9, 5e-324, 1.7976931348623157e308, 0.30000000000000004, 1e22, 1e23, 123456789.12345679])
                       ).map(lambda x: {"t": "float", "v": float(x).hex()})
    numstr = st.one_of(dec_s, st.tuples(st.integers(-10**6, 10**6), st.integers(-20, 20)).map(lambda t: "%de%d" % t),
                       st.sampled_from(["1e-6", "+5", ".5", "5.", "1E5", "007", "-0"])).map(lambda s: {"t": "str", "v": s})
    words = st.one_of(st.sampled_from(["w/5", "abc", " abc", "abc ", "\tx\n", "", " ", "a b", "11*l", "sim_param", "1+1", "1 2", "--1", "1e", "e5", "0x10", "ünï", "1,5", "{p}", "'q'", "nan", "inf", " 1", "1 ", "1_000", "Infinity", "-nan"]),
                      st.text(alphabet="abcxyz_+-*/ .(){}'\"=1e", min_size=0, max_size=12),
                      st.text(min_size=1, max_size=6)).map(lambda s: {"t": "str", "v": s})
    lits = st.one_of(st.sampled_from(["w/5", "1e-6", "", " x ", "5"]), st.text(max_size=8)).map(lambda s: {"t": "lit", "v": s})
    decv = dec_s.map(lambda s: {"t": "dec", "v": s})
    none = st.just({"t": "none"})
    scalar_val = st.one_of(pref, pref, ints, floats, decv, numstr, words, lits)
    opt_scalar = st.one_of(scalar_val, none)
    raw_any = st.one_of(pref, ints, floats, words, numstr, lits, none, st.sampled_from(["RED", "BLUE", "EMPTY"]).map(lambda n: {"t": "enum", "cls": "Color", "v": n}))

    prims = list(g["hp"]._primitives.keys())

    @st.composite
    def prim_case(draw):
        name = draw(st.sampled_from(prims))
        prim = getattr(g["hp"], name)
        params = {}
        for k, p in prim.paramtype.__params__.items():
            ds = str(p.dtype)
            if not draw(st.booleans()) and p.default is not g["h"].params.Default:
                continue
            if "Prefixed" in ds:
                params[k] = draw(opt_scalar if "Optional" in ds else scalar_val)
            elif "enum" in ds:
                members = list(p.dtype.__members__)
                params[k] = {"t": "enum", "cls": p.dtype.__name__, "v": draw(st.sampled_from(members))}
            elif "str" in ds:
                params[k] = draw(st.one_of(none, words))
        # required fields
        for k, p in prim.paramtype.__params__.items():
            if p.default is g["h"].params.Default and k not in params:
                params[k] = draw(scalar_val)
        return {"kind": "prim", "prim": name, "params": params}

    @st.composite
    def ext_case(draw):
        which = draw(st.sampled_from(["XD", "XD", "XF", "XS", "XP", "XR"]))
        if which in ("XP", "XR"):
            params = {}
            for k, p in g[which].paramtype.__params__.items():
                ds = str(p.dtype)
                if "Prefixed" not in ds:
                    continue
                if p.default is g["h"].params.Default or draw(st.booleans()):
                    params[k] = draw(opt_scalar if "Optional" in ds else scalar_val)
            return {"kind": "ext", "ext": which, "params": params}
        if which == "XD":
            n = draw(st.integers(0, 4))
            names = draw(st.lists(st.sampled_from(["a", "b", "w", "l", "m", "model", "tag", "x_1", "delay", "rise", "fall", "width", "period", "td",
                                                    "v1", "dc", "r", "c", "tpw", "name", "Delay"]), min_size=n, max_size=n, unique=True))
            return {"kind": "ext", "ext": "XD", "as_dict": draw(st.booleans()), "params": {k: draw(raw_any) for k in names}}
        if which == "XS":
            p = {"a": draw(scalar_val)}
            if draw(st.booleans()):
                p["b"] = draw(opt_scalar)
            if draw(st.booleans()):
                p["c"] = draw(opt_scalar)
            return {"kind": "ext", "ext": "XS", "params": p}
        p = {}
        opts = {"i": ints, "f": floats, "s": words, "oi": st.one_of(ints, none), "os_": st.one_of(words, none),
                "e": st.sampled_from(["RED", "BLUE", "EMPTY"]).map(lambda n: {"t": "enum", "cls": "Color", "v": n}),
                "lit": st.one_of(lits, none), "pre": st.one_of(pref, none)}
        for k, s in opts.items():
            if draw(st.booleans()):
                p[k] = draw(s)
        return {"kind": "ext", "ext": "XF", "params": p}

    @st.composite
    def order_case(draw):
        a = draw(st.one_of(pref, pref, scalar_val))
        mode = draw(st.integers(0, 5))
        b = None
        if a["t"] == "pref" and Decimal(a["v"][0]).is_finite() and mode <= 3:
            d = Decimal(a["v"][0])
            t = d.as_tuple()
            if mode == 0:    # same mantissa, trailing zeros appended
                z = draw(st.integers(1, 3))
                b = {"t": "pref", "v": [str(Decimal((t.sign, t.digits + (0,) * z, t.exponent - z))), a["v"][1]]}
            elif mode == 1:  # same mantissa, trailing zeros stripped / exponent form
                n = d.normalize()
                b = {"t": "pref", "v": [str(n), a["v"][1]]}
            elif mode == 2:  # same value under another prefix
                pb = draw(st.sampled_from(PREFIX_EXPS))
                b = {"t": "pref", "v": [str(d.scaleb(a["v"][1] - pb) if len(t.digits) < 60 else d), pb]}
            else:            # same digits, another prefix
                b = {"t": "pref", "v": [a["v"][0], draw(st.sampled_from(PREFIX_EXPS))]}
        if b is None or b == a:
            b = draw(scalar_val)
        if draw(st.booleans()):
            a, b = b, a
        return {"kind": "order", "carrier": draw(st.sampled_from(["XS", "XD", "R"])), "first": a, "second": b, "together": draw(st.booleans())}

    scal_case = scalar_val.map(lambda v: {"kind": "to_scalar", "val": v})
    pc, ec = prim_case(), ext_case()
    oc = order_case()
    # the order cases fork four fresh processes each: 1 in 40
    return st.integers(0, 39).flatmap(lambda k: oc if k == 0 else {0: pc, 1: pc, 2: pc, 3: pc, 4: ec, 5: ec, 6: ec}.get(k % 10, scal_case))


def _eval(res, case):
    try:
        if case["kind"] == "to_scalar":
            fails, note = check_to_scalar(case["val"])
            if note != "ok":
                res.notes["to_scalar_" + note] += 1
        elif case["kind"] == "order":
            fails = check_order(case)
        else:
            fails, notes = check_instance(case)
            for k, v in notes.items():
                res.notes[k] += v
    except Exception as e:
        import traceback
        res.harness_error("check crashed on %s: %s" % (json.dumps(case)[:300], traceback.format_exc()[-1200:]))
        return
    for sig, detail in fails:
        res.fail(sig, case, detail)
    res.case(case, nontrivial(case), feats(case))


def shard(idx, n, tier):
    H()
    par.server()
    import hypothesis
    from hypothesis import given, settings, HealthCheck, Phase
    res = core.Result()
    nex = (400000 if tier == "thorough" else 24000) // n

    @hypothesis.seed(env.subseed(PID, idx))
    @settings(max_examples=nex, database=None, deadline=None, derandomize=False,
              suppress_health_check=list(HealthCheck), phases=[Phase.generate], report_multiple_bugs=False)
    @given(strategies(tier))
    def run(case):
        _eval(res, case)

    run()
    return res


def replay(case):
    return check_case(case)


def main(tier):
    t0 = time.time()
    H()
    res = par.run_shards(shard, extra=(tier,))
    return core.finish(PID, LEVEL, tier, res, RULE, ASSUME, replay, t0, min_nontrivial=100)
