"""C05 - Names invented during elaboration never capture the designer's names.

Metamorphic on C01: a valid design is exported once to learn which names the elaborator invents in
each module; designer-chosen signals, ports, instances, bundle instances and no-connect names are then
renamed onto those names (and their trailing-underscore variants).  Renaming designer objects
consistently does not change the circuit, so the C01 oracle applies to the renamed design."""
import copy, json, time
from .. import env, core, par, gen, design, model, pkgread, iso
from .c01 import shares_net

PID = "C05"
LEVEL = "exploration"
RULE = ("Valid designs from the C01 generator (4 in 10 with all designer-chosen module-level names in upper case, 2 in 10 with a leading underscore on all internal names, 1 in 10 with an instance name so long that an invented name reaches the 511-character limit); the names Hdl21 invents per module (implicit port-reference and no-connect "
        "signals, named no-connects, flattened bundle members, array elements, pair members) are learnt from a first export; then "
        "1-4 designer objects (internal signals, ports incl. ports of sub-modules, instances, bundle instances, no-connect names) "
        "are renamed onto those names or their '_' / '__' variants, in varying declaration orders and construction styles. Oracle: "
        "elaboration raises, or the package is closed (unique names) and isomorphic to the reference interpreter's circuit of the "
        "renamed design, with every module exporting as many ports as it declares (scalar ports plus leaves of bundle ports). Non-trivial = at least one designer name equals a name the elaborator generated in that module for the "
        "un-renamed design; distinct by canonical spec hash.")
ASSUME = ["renaming designer objects consistently leaves the circuit unchanged (reference interpreter is name-agnostic)",
          "the top module's bundle ports are made internal so that top-level port names are all designer-chosen",
          "any exception is an accepted way of resolving a clash"]


def designer_names(m):
    return {s[0] for s in m["sigs"]} | {b[0] for b in m["bundles"]} | {i["name"] for i in m["insts"]}


def learn_invented(spec):
    """Run in a child: export S and return {module index: sorted invented names}."""
    pkg, _ = design.export(spec)
    out = {}
    for pm in pkg.modules:
        short = pm.name.split(".")[-1]
        for k, m in enumerate(spec["modules"]):
            nm = m["name"]
            if short == nm or short.startswith(nm + "("):
                names = {s.name for s in pm.signals} | {i.name for i in pm.instances}
                out[k] = sorted(names - designer_names(m))
    return out


def map_expr(e, fn):
    e = fn(e)
    t = e[0]
    if t == "slice":
        return ["slice", map_expr(e[1], fn), e[2]]
    if t == "cat":
        return ["cat", [map_expr(p, fn) for p in e[1]]]
    if t == "bref":
        return ["bref", map_expr(e[1], fn), e[2]]
    if t == "anon":
        return ["anon", [[mem, map_expr(sub, fn)] for mem, sub in e[1]]] + e[2:]
    return e


def rename(spec, mi, kind, old, new):
    s = spec
    m = s["modules"][mi]

    def in_module(fn):
        for inst in m["insts"]:
            inst["conns"] = [[p, map_expr(e, fn)] for p, e in inst["conns"]]

    if kind == "sig":
        for sg in m["sigs"]:
            if sg[0] == old:
                isport = sg[2] != "sig"
                sg[0] = new
        in_module(lambda e: ["sig", new] if e[0] == "sig" and e[1] == old else e)
        if isport:
            _rename_port_in_parents(s, mi, old, new)
    elif kind == "inst":
        for inst in m["insts"]:
            if inst["name"] == old:
                inst["name"] = new
        in_module(lambda e: ["pref", new, e[2]] if e[0] == "pref" and e[1] == old else e)
    elif kind == "bun":
        for b in m["bundles"]:
            if b[0] == old:
                isport = b[2]
                b[0] = new
            if len(b) > 5 and b[5] == "flipof:" + old:
                b[5] = "flipof:" + new
        in_module(lambda e: ["bun", new] if e[0] == "bun" and e[1] == old else e)
        if isport:
            _rename_port_in_parents(s, mi, old, new)
    elif kind == "nc":
        in_module(lambda e: ["nc", e[1], new] if e[0] == "nc" and len(e) > 2 and e[2] == old else e)


def _rename_port_in_parents(s, mi, old, new):
    for pm in s["modules"]:
        tinsts = {i["name"] for i in pm["insts"] if i["of"] == ["mod", mi]}
        for inst in pm["insts"]:
            if inst["name"] in tinsts:
                inst["conns"] = [[new if p == old else p, e] for p, e in inst["conns"]]
            inst["conns"] = [[p, map_expr(e, lambda x: ["pref", x[1], new] if x[0] == "pref" and x[1] in tinsts and x[2] == old else x)]
                             for p, e in inst["conns"]]


def nc_names(m):
    out = set()

    def visit(e):
        if e[0] == "nc" and len(e) > 2 and e[2]:
            out.add(e[2])
        return e
    for inst in m["insts"]:
        for _, e in inst["conns"]:
            map_expr(e, visit)
    return out


def eval_case(case):
    spec = case["spec"]
    v = design.evaluate(spec)
    if v.get("pkg"):
        import vlsir.circuit_pb2 as vckt
        pkg = vckt.Package(); pkg.ParseFromString(v["pkg"])
        v["cross_kind"] = []
        v["port_counts"] = []
        for pm in pkg.modules:
            short = pm.name.split(".")[-1]
            for k, m in enumerate(spec["modules"]):
                nm = m["name"]
                if nm and (short == nm or short.startswith(nm + "(")):
                    want = sum(1 for sg in m["sigs"] if sg[2] != "sig") + sum(len(model.bundle_leaves(spec, b[1])) for b in m["bundles"] if b[2])
                    if len(pm.ports) != want:
                        v["port_counts"].append((pm.name, want, [p.signal for p in pm.ports]))
        for pm in pkg.modules:
            both = sorted({x.name for x in pm.signals} & {i.name for i in pm.instances})
            if both:
                v["cross_kind"].append((pm.name, both))
    v.pop("pkg", None)
    if v.get("status") in ("agree", "fail"):
        dup = [c for c in v.get("closure", []) if c[0] in ("dup_signal", "dup_instance", "dup_port", "dup_module")]
        for mname, names in v.get("cross_kind", []):
            dup.append(("cross_kind", "%s: %s name both a signal and an instance" % (mname, names)))
        if v.get("port_counts") and not dup and v["status"] == "agree":
            # a member of a bundle port that nothing inside the module uses can vanish without changing the flat circuit:
            # the module's interface shows it
            mname, want, got = v["port_counts"][0]
            v["status"] = "fail"
            v["sig"] = "module_lost_or_gained_a_port"
            v["detail"] = "%s declares %d scalar / flattened ports, exported with %d: %s" % (mname, want, len(got), got)
        if dup:
            v["status"] = "fail"
            v["sig"] = "duplicate_name"
            v["detail"] = "; ".join(t for _, t in dup[:3])
    try:
        v["shared"] = shares_net(model.flatten(spec))
    except Exception:
        v["shared"] = False
    return v


def upcase(spec):
    """The same design with every designer-chosen module-level name (signals, ports, instances, bundle instances, no-connect
    names) in upper case; port names of cells and member names of bundle definitions stay as they are, so invented names
    become mixed-case (I0_a, G1_x)."""
    s = copy.deepcopy(spec)
    for mi, m in enumerate(s["modules"]):
        if m.get("history"):
            return spec
        for kind, names in (("sig", [x[0] for x in m["sigs"]]), ("inst", [i["name"] for i in m["insts"]]),
                            ("bun", [b[0] for b in m["bundles"]]), ("nc", sorted(nc_names(m)))):
            for old in names:
                if old.upper() != old:
                    rename(s, mi, kind, old, old.upper())
    return s


def underscored(spec):
    """The same design with every designer-chosen internal name (internal signals, instances, internal bundle instances,
    no-connect names - not ports, which are reached by attribute access) given a leading underscore; such names can only be
    given through add(), so all modules become procedural."""
    s = copy.deepcopy(spec)
    for mi, m in enumerate(s["modules"]):
        if m.get("history"):
            return spec
        for kind, names in (("sig", [x[0] for x in m["sigs"] if x[2] == "sig"]), ("inst", [i["name"] for i in m["insts"]]),
                            ("bun", [b[0] for b in m["bundles"] if not b[2]]), ("nc", sorted(nc_names(m)))):
            for old in names:
                rename(s, mi, kind, old, "_" + old)
        m["style"] = "proc"
        m.pop("bare", None)
    return s


def longnamed(spec, d):
    """The same design with one instance renamed so that '<instance>_<port>' is exactly as long as the longest name the
    elaborator will invent (511 characters): the clash-avoiding suffixes have no room left."""
    s = copy.deepcopy(spec)
    cands = [(mi, inst) for mi, m in enumerate(s["modules"]) if not m.get("history") for inst in m["insts"]]
    if not cands:
        return spec
    mi, inst = d.choice(cands)
    ports = [p[1] for p in model.target_iface(s, inst["of"]) if p[0] == "sig"]
    if not ports:
        return spec
    pn = d.choice(ports)
    new = ("L" + inst["name"]).ljust(511 - 1 - len(pn) - d.choice([0, 0, 1]), "x")
    rename(s, mi, "inst", inst["name"], new)
    return s


def make_case(d, spec, invented):
    """Apply 1-4 adversarial renames to a copy of spec (draws through D d)."""
    s = copy.deepcopy(spec)
    s.pop("features", None)
    top = s["top"]
    for b in s["modules"][top]["bundles"]:
        b[2] = False  # top-level bundle ports become internal bundle instances
    applied = []
    ncoll = d.int(1, 4)
    mods = [k for k in invented if invented[k]]
    if not mods:
        return None
    for _ in range(ncoll):
        withlong = [k for k in mods if any(len(t) >= 509 for t in invented[k])]
        mi = d.choice(withlong) if (withlong and d.bool(70)) else d.choice(mods)
        m = s["modules"][mi]
        ncn = sorted(nc_names(m))
        if ncn and d.bool(25):
            # the classic capture: a named no-connect whose name is (a variant of) a designer's or an invented name
            old = d.choice(ncn)
            pool = sorted(designer_names(m)) + [t for t in invented[mi] if t != old]
            new = d.choice(pool) + d.choice(["", "", "_"])
            if new in ncn:
                continue
            rename(s, mi, "nc", old, new)
            applied.append([mi, "nc", old, new])
            continue
        targets = [t + suf for t in invented[mi] for suf in ("", "", "_", "__")]
        longest = [t for t in invented[mi] if len(t) >= 509]
        new = d.choice(longest) + d.choice(["", "", "_"]) if (longest and d.bool(70)) else d.choice(targets)
        if len(new) > 511:
            continue
        taken = designer_names(m)
        if new in taken:
            continue
        cands = [("sig", sg[0]) for sg in m["sigs"]] + [("inst", i["name"]) for i in m["insts"]] + \
                [("bun", b[0]) for b in m["bundles"]]
        # do not rename the object that itself generates `new` onto it (a name derived from X contains X's name)
        cands = [c for c in cands if not new.startswith(c[1] + "_")]
        if not cands:
            continue
        kind, old = d.choice(cands)
        if kind in ("sig", "bun") and mi != top:
            # port renames must not collide in the parents' view (connection keys are per instance: fine)
            pass
        rename(s, mi, kind, old, new)
        applied.append([mi, kind, old, new])
    if not applied:
        return None
    return {"spec": s, "renames": applied}


def shard(idx, n, tier):
    env.setup_paths()
    import hdl21  # noqa
    par.server()
    import hypothesis
    from hypothesis import given, settings, HealthCheck, Phase, strategies as st
    res = core.Result()
    nex = (40000 if tier == "thorough" else 3200) // n
    opts = gen.Opts(max_modules=3, max_insts=4, wide=False, named_nc=True, adversarial_leaf_names=True)

    @hypothesis.seed(env.subseed(PID, idx))
    @settings(max_examples=nex, database=None, deadline=None, derandomize=False,
              suppress_health_check=list(HealthCheck), phases=[Phase.generate], report_multiple_bugs=False)
    @given(st.data())
    def run(data):
        spec = data.draw(gen.designs(opts))
        variant = data.draw(st.integers(0, 9))
        upper = variant < 4
        if upper or variant in (4, 5, 6):
            feats0 = spec.get("features", [])
            spec = upcase(spec) if upper else underscored(spec) if variant < 6 else longnamed(spec, gen.D(data.draw))
            try:
                model.flatten(spec)
            except model.ModelError as e:
                res.harness_error("upper-cased spec is ill-formed: %s" % e)
                return
            spec["features"] = list(feats0) + ["upper_case_names" if upper else "leading_underscore_names" if variant < 6 else "name_at_length_limit"]
        inv = par.pristine(learn_invented, spec)
        if par.is_exc(inv):
            res.reject("base:" + inv[1])
            return
        case = make_case(gen.D(data.draw), spec, inv)
        if case is None:
            res.notes["no_invented_names_or_no_candidate"] += 1
            return
        try:
            model.flatten(case["spec"])
        except model.ModelError as e:
            res.notes["renamed_spec_invalid:" + str(e)[:40]] += 1
            return
        v = par.pristine(eval_case, case)
        if par.is_exc(v):
            res.harness_error("%s %s %s" % (v[1], v[2], v[3][-600:]))
            return
        feats = ["rename_" + r[1] for r in case["renames"]] + ["underscore_variant" for r in case["renames"] if r[3].endswith("_")]
        feats += [f for f in spec.get("features", []) if f in ("upper_case_names", "leading_underscore_names", "name_at_length_limit", "named_noconn", "noconn", "array", "pair", "bundle_port", "portref_root_unconnected", "bundle_conn")]
        if v["status"] == "reject":
            res.reject(v["sig"])
            res.notes["resolved_by_raising"] += 1
            res.case(case, True, feats + ["raised"])
            return
        if v["status"] == "fail":
            res.fail(v["sig"] + ":" + "+".join(sorted({r[1] for r in case["renames"]})), case, v["detail"])
        res.case(case, True, feats)

    run()
    return res


def replay(case):
    v = par.in_child(eval_case, case)
    if par.is_exc(v):
        raise RuntimeError(v[2])
    if v["status"] == "fail":
        return [(v["sig"] + ":" + "+".join(sorted({r[1] for r in case["renames"]})), v["detail"])]
    return []


def main(tier):
    t0 = time.time()
    env.setup_paths()
    import hdl21  # noqa
    res = par.run_shards(shard, extra=(tier,))
    return core.finish(PID, LEVEL, tier, res, RULE, ASSUME, replay, t0, min_nontrivial=100)
