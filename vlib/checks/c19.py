"""C19 - Built-in generators build the documented topologies.

Enumerated: n x unit cells x ordered series-port pairs x (by name / by Signal), MosStack, Wrapper.
Oracle: the chain written out as a spec and given to the reference interpreter."""
import itertools, json, time
from .. import env, core, par, model, pkgread, iso, design
from ..build import Builder

PID = "C19"
LEVEL = "exploration"
RULE = ("Enumerated: nser n in 1..N (N=6 quick, 12 thorough) x unit cells {R, C, L, Vcvs (4 ports), Mos, Bipolar, external modules with "
        "2/3/4 scalar ports, external modules whose ports are named like the generators' own objects (i, units, units_k, inner; also as the name of a bundle-valued port) or like attributes of an Instance (_sub, name, of), a module with a bus port, a module with a bundle port, a module with scalar ports declared in g,s,d,b order} "
        "x every ordered pair of distinct scalar unit ports as the series pair x given by name / by Signal / mixed; MosStack(n) with "
        "default and given units; Wrapper(m) for every unit, and a second Wrapper(m) after the first wrapper was edited / exported or m itself gained a port; module units (one of them with three bundle-valued ports) also elaborated before being handed to Series / Wrapper - the generated module must list its ports in the same order with and without that history. Oracle: the documented chain written as a design spec (n unit instances, "
        "unit k's second series port and unit k+1's first on a private net, ends on the module's series ports, all other ports - bus and "
        "bundle members included - tied to the same-named module port) evaluated by the reference interpreter and compared up to "
        "isomorphism with the exported package; nser < 1 must raise. Non-trivial = n >= 3, or a unit with >= 3 ports, or a bus / bundle "
        "parallel port; distinct by case text. The enumeration is complete for the stated bounds.")
ASSUME = ["all unit instances carry equal parameters, so the comparison relies on the isomorphism search (with instance-name hints)",
          "a request outside the statement's domain (equal series ports, a bus as series port) is recorded, not asserted"]

# unit cells: name -> (spec cells, spec bundles, spec modules, unit 'of', scalar port names in declaration order)
BUNDLE = {"name": "UB", "sigs": [["x", 1, "inout"], ["y", 2, "port"]], "subs": [], "roles": False}


def unit_spec(u):
    """-> (cells, bundles, modules, of, series-capable port names)"""
    ext = lambda ports: {"kind": "ext", "name": "U", "ports": ports}
    if u in ("R", "C", "L", "Vcvs", "Mos", "Bipolar"):
        cells = [{"kind": "prim", "prim": u, "name": "U"}]
        return cells, [], [], ["cell", 0], [p for p, w in model.PRIMS[u][2]]
    if u == "ext2":
        return [ext([["a", 1, "inout"], ["b", 1, "inout"]])], [], [], ["cell", 0], ["a", "b"]
    if u == "ext3":
        return [ext([["a", 1, "in"], ["b", 1, "out"], ["c", 1, "inout"]])], [], [], ["cell", 0], ["a", "b", "c"]
    if u == "ext4":
        return [ext([["a", 1, "in"], ["b", 1, "out"], ["c", 1, "inout"], ["d", 1, "port"]])], [], [], ["cell", 0], ["a", "b", "c", "d"]
    if u.startswith("adv_"):
        # unit ports named like the things the generators create themselves (the inter-unit net, the array, its elements, the
        # wrapper's instance)
        extra = {"adv_special": ["_sub", "name", "of"], "adv_i": ["i"], "adv_units": ["units"], "adv_elems": ["units_1", "units_0"], "adv_inner": ["inner"],
                 "adv_all": ["i", "units", "units_0", "inner"]}[u]
        names = ["a", "b"] + extra
        return [ext([[nm, 1, "inout"] for nm in names])], [], [], ["cell", 0], names
    leaf = ext([["a", 1, "inout"], ["b", 1, "inout"], ["c", 3, "in"]])
    if u == "mod_bus":
        m = {"name": "UnitBus", "sigs": [["p", 1, "inout"], ["n", 1, "inout"], ["w", 3, "in"]], "bundles": [],
             "insts": [{"name": "l", "of": ["cell", 0], "kind": "inst", "tag": 5, "conns": [["a", ["sig", "p"]], ["b", ["sig", "n"]], ["c", ["sig", "w"]]]}]}
        return [leaf], [], [m], ["mod", 0], ["p", "n"]
    if u == "mod_rolebundle":
        # a bundle port whose leaf directions come from the instance's role
        rb = {"name": "URB", "sigs": [["x", 1, "role_ab"], ["y", 2, "role_ba"], ["z", 1, "in"]], "subs": [], "roles": True}
        m = {"name": "UnitRole", "sigs": [["p", 1, "inout"], ["n", 1, "inout"]], "bundles": [["rb", 0, True, True, "A", "ctor"]],
             "insts": [{"name": "l", "of": ["cell", 0], "kind": "inst", "tag": 5,
                        "conns": [["a", ["sig", "p"]], ["b", ["bref", ["bun", "rb"], "x"]], ["c", ["cat", [["sig", "n"], ["bref", ["bun", "rb"], "y"]]]]]},
                       {"name": "l2", "of": ["cell", 0], "kind": "inst", "tag": 6,
                        "conns": [["a", ["bref", ["bun", "rb"], "z"]], ["b", ["sig", "n"]], ["c", ["cat", [["sig", "p"], ["bref", ["bun", "rb"], "y"]]]]]}]}
        return [leaf], [rb], [m], ["mod", 0], ["p", "n"]
    if u == "mod_two_bundles":
        # two bundle-valued ports (and scalar ones declared before, between and after them)
        m = {"name": "UnitTwoBundles", "sigs": [["p", 1, "inout"], ["n", 1, "inout"]],
             "bundles": [["bb", 0, True, False, None, "ctor"], ["cc", 0, True, True, None, "ctor"], ["dd", 0, True, False, None, "ctor"]],
             "insts": [{"name": "l", "of": ["cell", 0], "kind": "inst", "tag": 5,
                        "conns": [["a", ["sig", "p"]], ["b", ["bref", ["bun", "bb"], "x"]], ["c", ["cat", [["sig", "n"], ["bref", ["bun", "cc"], "y"]]]]]},
                       {"name": "l2", "of": ["cell", 0], "kind": "inst", "tag": 6,
                        "conns": [["a", ["bref", ["bun", "cc"], "x"]], ["b", ["bref", ["bun", "dd"], "x"]], ["c", ["cat", [["sig", "p"], ["bref", ["bun", "dd"], "y"]]]]]}]}
        return [leaf], [BUNDLE], [m], ["mod", 0], ["p", "n"]
    if u.startswith("mod_bundle"):
        # (mod_bundle_i / _units / _inner: the bundle-valued port is named like one of the generators' own objects)
        bb = u[len("mod_bundle_"):] or "bb"
        m = {"name": "UnitBundle", "sigs": [["p", 1, "inout"], ["n", 1, "inout"]], "bundles": [[bb, 0, True, False, None, "ctor"]],
             "insts": [{"name": "l", "of": ["cell", 0], "kind": "inst", "tag": 5,
                        "conns": [["a", ["sig", "p"]], ["b", ["bref", ["bun", bb], "x"]], ["c", ["cat", [["sig", "n"], ["bref", ["bun", bb], "y"]]]]]}]}
        return [leaf], [BUNDLE], [m], ["mod", 0], ["p", "n"]
    if u == "mod_gsdb":
        fet = {"kind": "prim", "prim": "Mos", "name": "U"}
        m = {"name": "UnitFet", "sigs": [["g", 1, "in"], ["s", 1, "inout"], ["d", 1, "inout"], ["b", 1, "inout"]], "bundles": [],
             "insts": [{"name": "f", "of": ["cell", 0], "kind": "inst", "tag": 5, "conns": [["d", ["sig", "d"]], ["g", ["sig", "g"]], ["s", ["sig", "s"]], ["b", ["sig", "b"]]]}]}
        return [fet], [], [m], ["mod", 0], ["g", "s", "d", "b"]
    raise ValueError(u)


UNITS = ["R", "C", "L", "Vcvs", "Mos", "Bipolar", "ext2", "ext3", "ext4", "mod_bus", "mod_bundle", "mod_gsdb",
         "adv_i", "adv_units", "adv_elems", "adv_inner", "adv_all", "adv_special", "mod_bundle_i", "mod_bundle_units", "mod_bundle_inner", "mod_rolebundle", "mod_two_bundles"]
TAG = 7


def chain_spec(u, first, second, n, extra_port=False):
    cells, bundles, mods, of, _ = unit_spec(u)
    if extra_port:
        mods[of[1]]["sigs"].append(["extra", 1, "in"])
    spec = {"cells": cells, "bundles": bundles, "modules": list(mods)}
    iface = model.target_iface(spec, of)
    sigs = []
    buns = []
    for p in iface:
        if p[0] == "sig":
            d = "inout"
            if of[0] == "cell" and cells[of[1]]["kind"] == "ext":
                d = [q[2] for q in cells[of[1]]["ports"] if q[0] == p[1]][0]
            elif of[0] == "mod":
                d = [q[2] for q in mods[of[1]]["sigs"] if q[0] == p[1]][0]
            else:
                d = "port"
            sigs.append([p[1], p[2], d])
        else:
            src = [b for b in mods[of[1]]["bundles"] if b[0] == p[1]][0] if of[0] == "mod" else None
            buns.append([p[1], p[2], True, bool(src[3]) if src else False, src[4] if src else None, "ctor"])
    taken = {p[1] for p in iface}
    ser = "i"
    while ser in taken:
        ser += "_"
    if n >= 2:
        sigs.append([ser, n - 1, "sig"])
    insts = []
    for k in range(n):
        conns = []
        for p in iface:
            if p[0] == "bun":
                conns.append([p[1], ["bun", p[1]]])
            elif p[1] == first and n >= 2:
                conns.append([p[1], ["sig", first] if k == 0 else ["slice", ["sig", ser], k - 1]])
            elif p[1] == second and n >= 2:
                conns.append([p[1], ["sig", second] if k == n - 1 else ["slice", ["sig", ser], k]])
            else:
                conns.append([p[1], ["sig", p[1]]])
        iname = ("units_%d" % k) if n >= 2 else "inner"
        while iname in taken:
            iname += "_"
        insts.append({"name": iname, "of": of, "kind": "inst", "tag": TAG if of[0] == "cell" else 100 + k, "conns": conns})
    spec["modules"].append({"name": "Chain", "sigs": sigs, "bundles": buns, "insts": insts})
    spec["top"] = len(spec["modules"]) - 1
    return spec


def build_unit(b, u):
    cells, bundles, mods, of, _ = unit_spec(u)
    if of[0] == "cell":
        return b.cell_call(0, TAG)
    return b.module(0)


def eval_case(case):
    env.setup_paths()
    import hdl21 as h
    from hdl21.generators import Series, MosStack, Wrapper
    u, n, kind = case["unit"], case["n"], case["kind"]
    cells, bundles, mods, of, ports = unit_spec(u)
    b = Builder({"cells": cells, "bundles": bundles, "modules": mods, "top": 0})
    unit = build_unit(b, u)
    first, second = case.get("first"), case.get("second")
    out = {}
    try:
        if case.get("pre_elab"):
            h.elaborate(unit)  # the unit was elaborated (say, netlisted on its own) before being handed to the generator
        if kind == "series":
            form = case["form"]
            c0 = first if form in ("name", "name_sig") else unit.ports[first]
            c1 = second if form in ("name", "sig_name") else unit.ports[second]
            m = Series(unit=unit, conns=(c0, c1), nser=n)
        elif kind == "mosstack":
            m = MosStack(unit=unit, nser=n) if case.get("given") else MosStack(nser=n)
        elif kind == "wrapper_again":
            # Wrapper is a plain function: a second wrap of the same cell is a new module reflecting the cell as it is now,
            # whatever was done to the first wrapper or to the cell in between
            w1 = Wrapper(unit)
            if case["edit"] in ("first_wrapper", "both"):
                w1.add(h.Input(name="added_to_wrapper"))
                w1.add(h.Signal(name="more"))
            if case["edit"] in ("cell", "both"):
                unit.add(h.Input(name="extra"))
            if case["edit"] == "export_first":
                h.to_proto(w1)
            m = Wrapper(unit)
            if m is w1:
                out.update(status="fail", sig="second_wrap_is_first_wrapper", detail="Wrapper(m) returned the module it had returned before")
                return out
        else:
            m = Wrapper(unit)
        pkg = h.to_proto(m)
        out["port_order"] = [pt.signal for pt in pkg.modules[-1].ports]
    except Exception as e:
        out.update(status="raised", sig=design.exc_bucket(e), detail="%s: %s" % (type(e).__name__, str(e)[-300:]))
        return out
    if n < 1:
        out.update(status="accepted_invalid")
        return out
    if kind == "mosstack" and not case.get("given"):
        want_spec = chain_spec("Mos", "d", "s", n)
        for inst in want_spec["modules"][-1]["insts"]:
            inst["tag"] = None
    else:
        want_spec = chain_spec(u, first, second, n, extra_port=(kind == "wrapper_again" and case["edit"] in ("cell", "both"))) \
            if kind not in ("wrapper", "wrapper_again") else chain_spec(u, None, None, 1, extra_port=(kind == "wrapper_again" and case["edit"] in ("cell", "both")))
    try:
        want = model.flatten(want_spec)
        got = pkgread.flatten(pkg, tag_params=design.TAG_PARAMS)
    except (model.ModelError, pkgread.PkgError) as e:
        out.update(status="fail", sig="malformed:" + type(e).__name__, detail=str(e)[:300])
        return out
    # "exposes exactly m's ports": the generated module's ports (name, width, direction) are those of the unit, as both export
    try:
        gen_ports = {(pt.signal, {sg.name: sg.width for sg in pkg.modules[-1].signals}[pt.signal], pt.direction) for pt in pkg.modules[-1].ports}
        if of[0] == "mod":
            upkg = h.to_proto(unit)
            um = upkg.modules[-1]
            unit_ports = {(pt.signal, {sg.name: sg.width for sg in um.signals}[pt.signal], pt.direction) for pt in um.ports}
        elif cells[of[1]]["kind"] == "ext":
            em = [e for e in pkg.ext_modules if e.name.name == cells[of[1]]["name"]][0]
            unit_ports = {(pt.signal, {sg.name: sg.width for sg in em.signals}[pt.signal], pt.direction) for pt in em.ports}
        else:
            unit_ports = None
        if unit_ports is not None and gen_ports != unit_ports:
            out.update(status="fail", sig="ports_not_the_units", detail="generated module exports ports %s, the unit %s" % (sorted(gen_ports), sorted(unit_ports)))
            return out
    except Exception as e:
        out.update(status="fail", sig="port_comparison_raises:" + type(e).__name__, detail=str(e)[-300:])
        return out
    verdict, why = iso.compare(want, got, budget=400)
    if verdict == "iso":
        out.update(status="agree")
    elif verdict == "inconclusive":
        out.update(status="inconclusive")
    else:
        out.update(status="fail", sig="topology", detail=why)
    return out


def cases(tier):
    N = 12 if tier == "thorough" else 6
    for u in UNITS:
        ports = unit_spec(u)[4]
        for first, second in itertools.permutations(ports, 2):
            for form in ("name", "sig", "name_sig", "sig_name"):
                if form in ("name_sig", "sig_name") and (first, second) != tuple(ports[:2]) and (first, second) != tuple(reversed(ports[-2:])):
                    continue
                for n in range(1, (min(N, 4) if u.startswith("adv_") else N) + 1):  # adv_*: many pairs, small n suffices
                    yield {"kind": "series", "unit": u, "first": first, "second": second, "form": form, "n": n}
        yield {"kind": "series", "unit": u, "first": ports[0], "second": ports[1], "form": "name", "n": 0}
        yield {"kind": "series", "unit": u, "first": ports[0], "second": ports[1], "form": "name", "n": -1}
        yield {"kind": "wrapper", "unit": u, "n": 1}
        if u.startswith("mod_"):
            yield {"kind": "wrapper", "unit": u, "n": 1, "pre_elab": True}
            for n in (1, 2, 3):
                for form in ("name", "sig"):
                    yield {"kind": "series", "unit": u, "first": ports[0], "second": ports[1], "form": form, "n": n, "pre_elab": True}
        for edit in ("none", "first_wrapper", "export_first") + (("cell", "both") if u.startswith("mod_") else ()):
            yield {"kind": "wrapper_again", "unit": u, "n": 1, "edit": edit}
    for n in range(0, N + 1):
        yield {"kind": "mosstack", "unit": "Mos", "given": False, "first": "d", "second": "s", "n": n}
        yield {"kind": "mosstack", "unit": "Mos", "given": True, "first": "d", "second": "s", "n": n}
        yield {"kind": "mosstack", "unit": "mod_gsdb", "given": True, "first": "d", "second": "s", "n": n}


def record(res, case, v):
    nt = case["n"] >= 3 or len(unit_spec(case["unit"])[4]) >= 3 or (case["unit"] in ("mod_bus", "mod_rolebundle", "mod_two_bundles") or case["unit"].startswith("mod_bundle"))
    feats = [case["kind"], "unit_" + case["unit"], "n%d" % min(case["n"], 4) + ("+" if case["n"] > 4 else "")]
    if case.get("form"):
        feats.append("form_" + case["form"])
    if case.get("pre_elab"):
        feats.append("unit_elaborated_before")
    if case.get("edit"):
        feats.append("edit_" + case["edit"])
    st = v["status"]
    if case["n"] < 1:
        if st != "raised":
            res.fail("accepts_nser_below_1:" + case["kind"], case, "nser=%d was accepted" % case["n"])
        res.case(case, False, feats + ["invalid_n"])
        return
    if st == "raised":
        res.fail("rejects_documented_request:%s:%s" % (case["kind"], case["unit"]), case, v["detail"])
    elif st == "fail":
        res.fail("%s:%s:%s" % (v["sig"], case["kind"], "bundle_unit" if case["unit"].startswith("mod_bundle") else "unit"), case, v["detail"])
    elif st == "inconclusive":
        res.notes["iso_inconclusive"] += 1
    res.case(case, nt, feats)


def with_history(run, case):
    """eval_case, and for a unit elaborated beforehand also the same request without that history: the generated module lists
    its ports in the same order either way."""
    v = run(eval_case, case)
    if par.is_exc(v) or not case.get("pre_elab") or v.get("status") in ("raised", "fail"):
        return v
    v0 = run(eval_case, dict(case, pre_elab=False))
    if not par.is_exc(v0) and v0.get("port_order") is not None and v.get("port_order") != v0.get("port_order"):
        v = dict(v, status="fail", sig="port_order_depends_on_history",
                 detail="ports %s when the unit was elaborated before being handed over, %s when it was not" % (v.get("port_order"), v0.get("port_order")))
    return v


def shard(idx, n, tier):
    env.setup_paths()
    import hdl21  # noqa
    par.server()
    res = core.Result()
    for k, case in enumerate(cases(tier)):
        if k % n != idx:
            continue
        v = with_history(par.pristine, case)
        if par.is_exc(v):
            res.harness_error("%s %s %s" % (v[1], v[2], v[3][-800:]))
            continue
        record(res, case, v)
    return res


def replay(case):
    v = with_history(par.in_child, case)
    if par.is_exc(v):
        raise RuntimeError(v[2])
    r = core.Result()
    record(r, case, v)
    return [(sig, lst[0]["detail"]) for sig, lst in r.failures.items()]


def main(tier):
    t0 = time.time()
    env.setup_paths()
    import hdl21  # noqa
    res = par.run_shards(shard, extra=(tier,))
    return core.finish(PID, LEVEL, tier, res, RULE, ASSUME, replay, t0, exhaustive=True, min_nontrivial=100)
