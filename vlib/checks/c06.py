"""C06 - Every exported package is closed and self-consistent.

Closure checker written against the VLSIR schema only, plus acceptance by from_proto and the
vlsirtools spice / spectre netlisters, over generated designs, the repository's examples and
built-in generators over their parameter ranges, and PDK-compiled designs."""
import time
from .. import env, core, par, gen, design, corpus, pkgcheck, model

PID = "C06"
LEVEL = "exploration"
RULE = ("Packages from (1) Hypothesis-generated designs (C01 generator, all features), (2) the examples (rdac.rladder, "
        "rdac.mux_tree, encoder, ro, idac, diff_ota, bundles, mos_sim) and hdl21.generators (Series, MosStack, CmDmGen, Balun) "
        "over their parameter ranges, (3) sample-PDK / Sky130 / GF180 / ASAP7 compiled designs, (4) adversarially named designs, (5) whatever to_proto returns for ill-formed designs from C02's fault planter (nearly all are refused). Each package is checked for: "
        "unique module names, definition before use, unique signal/port/instance names, ports naming declared signals, every "
        "instance target resolvable (local / declared external / vlsir.primitives / hdl21.primitives), port set connected exactly "
        "once, targets naming declared signals within their widths with the port's width; then from_proto and the vlsirtools "
        "spice and spectre netlisters must accept it (netlisters only when no hdl21.primitives reference). Non-trivial = >=2 "
        "modules and a slice/concat target or an external module; distinct by package bytes hash.")
ASSUME = ["the closure rules are read from the VLSIR schema and the property statement",
          "vlsirtools netlisters reject hdl21.primitives, and two external modules of one name (in different domains), by design: such packages are only closure- and import-checked"]


def eval_design(spec):
    env.setup_paths()
    import vlsir.circuit_pb2 as vckt
    try:
        pkg, _ = design.export(spec)
    except Exception as e:
        return {"status": "reject", "sig": design.exc_bucket(e)}
    fails = pkgcheck.check_package(pkg)
    return {"status": "ok", "fails": fails, "feats": sorted(pkgcheck.pkg_features(pkg)),
            "hash": env.canon_hash(pkg.SerializeToString(deterministic=True).hex())}


def eval_faulty(mspec):
    """An ill-formed design (C02's fault planter): if to_proto returns a package for it nevertheless, that package is one
    'a successful to_proto call returns' and must be closed like any other."""
    env.setup_paths()
    import hdl21 as h
    from ..build import Builder
    from . import c02
    try:
        b = Builder(mspec)
        top = b.module(mspec["top"])
        c02.apply_cycle(b, mspec)
        pkg = h.to_proto(top)
    except RecursionError:
        return {"status": "reject", "sig": "RecursionError"}
    except Exception as e:
        return {"status": "reject", "sig": "ill_formed_design_refused"}
    fails = [("ill_formed_design:" + sig, detail) for sig, detail in pkgcheck.check_package(pkg)]
    return {"status": "ok", "fails": fails, "feats": sorted(pkgcheck.pkg_features(pkg)) + ["package_from_ill_formed_design"],
            "hash": env.canon_hash(pkg.SerializeToString(deterministic=True).hex())}


def eval_corpus(index, tier):
    env.setup_paths()
    import vlsir.circuit_pb2 as vckt
    r = corpus.export_item(index, tier)
    if "error" in r:
        return {"status": "reject", "sig": r["error"][:80], "name": r["name"]}
    pkg = vckt.Package()
    pkg.ParseFromString(r["pkg"])
    fails = pkgcheck.check_package(pkg)
    return {"status": "ok", "fails": fails, "feats": sorted(pkgcheck.pkg_features(pkg)), "name": r["name"],
            "hash": env.canon_hash(r["pkg"].hex())}


def eval_pdk(index):
    from . import c15
    return c15.closure_item(index)


def record(res, case, v, source):
    if v["status"] == "reject":
        res.reject(v["sig"])
        res.evaluations += 1
        return
    for sig, detail in v["fails"]:
        res.fail(sig, case, detail)
    f = set(v["feats"])
    nt = "multi_module" in f and bool(f & {"target_slice", "target_concat", "ext_module"})
    res.case(case, nt, [source] + list(v["feats"]), key=v["hash"])


def shard(idx, n, tier):
    env.setup_paths()
    import hdl21  # noqa
    par.server()
    res = core.Result()
    # (2) corpus
    its = corpus.items(tier)
    for k in range(len(its)):
        if k % n != idx:
            continue
        v = par.pristine(eval_corpus, k, tier)
        if par.is_exc(v):
            res.harness_error("corpus %s: %s %s" % (its[k][0], v[1], v[2]))
            continue
        record(res, {"corpus": its[k][0]}, v, "corpus")
    # (3) PDK-compiled designs
    try:
        from . import c15
        npdk = c15.closure_count(tier)
    except Exception:
        npdk = 0
    for k in range(npdk):
        if k % n != idx:
            continue
        v = par.pristine(eval_pdk, k)
        if par.is_exc(v):
            res.harness_error("pdk item %d: %s %s" % (k, v[1], v[2]))
            continue
        record(res, {"pdk_item": k, "name": v.get("name")}, v, "pdk")
    # (1) generated designs
    import hypothesis
    from hypothesis import given, settings, HealthCheck, Phase
    nex = (40000 if tier == "thorough" else 3200) // n

    @hypothesis.seed(env.subseed(PID, idx))
    @settings(max_examples=nex, database=None, deadline=None, derandomize=False,
              suppress_health_check=list(HealthCheck), phases=[Phase.generate], report_multiple_bugs=False)
    @given(gen.designs(gen.Opts(same_name_ext=True)))
    def run(spec):
        v = par.pristine(eval_design, spec)
        if par.is_exc(v):
            res.harness_error("design: %s %s %s" % (v[1], v[2], v[3][-600:]))
            return
        record(res, {"design": {k: spec[k] for k in spec if k != "features"}}, v, "generated")

    run()

    # (5) ill-formed designs: C02's fault planter; most are refused (counted), any package returned must be closed
    from . import c02
    nbase = max(1, nex // 60)

    @hypothesis.seed(env.subseed(PID, "faulty", idx))
    @settings(max_examples=nbase, database=None, deadline=None, derandomize=False,
              suppress_health_check=list(HealthCheck), phases=[Phase.generate], report_multiple_bugs=False)
    @given(gen.designs(gen.Opts(max_modules=3, max_insts=3, wide=False)))
    def run_faulty(spec):
        try:
            model.flatten(spec)
        except Exception:
            return
        ms = list(c02.mutants(spec))
        step = max(1, len(ms) // 40)
        for cls, site, mspec in ms[::step][:40]:
            try:
                model.flatten(mspec)
                continue  # not ill-formed after all
            except model.ModelError:
                pass
            except RecursionError:
                pass
            v = par.pristine(eval_faulty, mspec)
            if par.is_exc(v):
                res.harness_error("faulty design: %s %s %s" % (v[1], v[2], v[3][-600:]))
                continue
            res.notes["ill_formed_designs_tried"] += 1
            if v["status"] == "reject":
                res.notes["ill_formed_designs_refused"] += 1
                continue
            record(res, {"fault": cls, "site": site, "design": mspec}, v, "ill_formed")

    run_faulty()

    # designs whose designer-chosen names collide with the names elaboration invents (generator shared with C05):
    # whatever package comes out of them must be closed as well
    from . import c05
    from hypothesis import strategies as st
    opts5 = gen.Opts(max_modules=3, max_insts=4, wide=False, named_nc=True, adversarial_leaf_names=True)

    @hypothesis.seed(env.subseed(PID, "adv", idx))
    @settings(max_examples=max(1, nex // 4), database=None, deadline=None, derandomize=False,
              suppress_health_check=list(HealthCheck), phases=[Phase.generate], report_multiple_bugs=False)
    @given(st.data())
    def run_adv(data):
        spec = data.draw(gen.designs(opts5))
        inv = par.pristine(c05.learn_invented, spec)
        if par.is_exc(inv):
            return
        case = c05.make_case(gen.D(data.draw), spec, inv)
        sp = case["spec"] if case else {k: spec[k] for k in spec if k != "features"}
        v = par.pristine(eval_design, sp)
        if par.is_exc(v):
            res.harness_error("design: %s %s %s" % (v[1], v[2], v[3][-600:]))
            return
        if v["status"] == "ok":
            v["feats"] = list(v["feats"]) + ["adversarial_names"]
        record(res, {"design": sp}, v, "generated_adversarial_names")

    run_adv()
    return res


def replay(case):
    if "fault" in case:
        v = par.in_child(eval_faulty, case["design"])
    elif "design" in case:
        v = par.in_child(eval_design, case["design"])
    elif "corpus" in case:
        names = [nm for nm, _ in corpus.items("thorough")]
        v = par.in_child(eval_corpus, names.index(case["corpus"]), "thorough")
    else:
        v = par.in_child(eval_pdk, case["pdk_item"])
    if par.is_exc(v):
        raise RuntimeError(v[2])
    return list(v.get("fails", []))


def main(tier):
    t0 = time.time()
    env.setup_paths()
    import hdl21  # noqa
    res = par.run_shards(shard, extra=(tier,))
    return core.finish(PID, LEVEL, tier, res, RULE, ASSUME, replay, t0, min_nontrivial=100)
