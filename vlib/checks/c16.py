"""C16 - flatten() preserves leaf-level connectivity.

Generated hierarchies (leaves at every level, shared sub-modules, buses, pass-through ports, internal
nets at every level, names chosen to collide with the ':'-joined names flatten generates); flatten(m)
is exported and compared with the reference interpreter's flat circuit of the source design."""
import copy, time
from .. import env, core, par, gen, model, pkgread, iso, design
from ..build import Builder

PID = "C16"
LEVEL = "translation_validation"
RULE = ("Hypothesis-generated hierarchies of depth <=4 whose connections elaborate to whole signals (scalar and bus signals, direct "
        "port references, no-connects, broadcast arrays, pairs, bundles), with primitive and external-module leaves at every level, "
        "shared sub-modules and ports passed through several levels; a second class adds slices / concats / per-element arrays; a "
        "third renames signals and instances onto the ':'-joined names flatten generates ('i:x' next to instance i with net x, "
        "instance 'a:b' next to a containing b). Oracle: for designs whose elaborated connections are all whole signals and whose "
        "names contain no ':', flatten must return a module containing only primitive / external instances, one per leaf device, with "
        "the source's ports (name, width, direction, order), whose package is isomorphic to the reference interpreter's circuit; for "
        "the other classes: an exception, or all of the above. Non-trivial = depth >=3, or a bus net, or an adversarial name, or an "
        "external-module leaf below the top; distinct by canonical spec hash.")
ASSUME = ["the reference interpreter's flat circuit of the source design is the meaning flatten must preserve",
          "designs flatten may refuse (slices, concats, ':' in names) are allowed to raise"]


def depth(spec, k):
    return 1 + max([depth(spec, i["of"][1]) for i in spec["modules"][k]["insts"] if i["of"][0] == "mod"] or [0])


def eval_case(spec):
    env.setup_paths()
    import hdl21 as h
    try:
        want = model.flatten(spec)
    except model.ModelError as e:
        return {"status": "model_reject", "detail": str(e)}
    try:
        from hdl21.flatten import is_flat

        def probe(builder, k, phase, ctx):
            # a designer may ask "is this flat yet?" at any time while a module is being put together
            if phase == "pre_connect" and ctx.get("mod") is not None:
                is_flat(ctx["mod"])
        b = Builder(spec, mutate=probe)
        top = b.module(spec["top"])
        h.elaborate(top)
    except Exception as e:
        return {"status": "reject", "sig": "elaborate:" + design.exc_bucket(e)}
    # classify the elaborated hierarchy
    simple, colon = True, False
    seen = set()

    def scan(m):
        nonlocal simple, colon
        if id(m) in seen:
            return
        seen.add(id(m))
        for nm in list(m.signals) + list(m.ports) + list(m.instances):
            if ":" in nm:
                colon = True
        for inst in m.instances.values():
            for c in inst.conns.values():
                if not isinstance(c, h.Signal):
                    simple = False
            if isinstance(inst.of, h.Module):
                scan(inst.of)
    scan(top)
    must = simple and not colon
    out = {"must": must, "simple": simple, "colon": colon}
    src_ports = [(p.name, p.width, p.direction.name) for p in top.ports.values()]
    try:
        from hdl21.flatten import flatten as hflatten
        flat = hflatten(top)
    except Exception as e:
        out.update(status="raised", sig=design.exc_bucket(e), detail="%s: %s" % (type(e).__name__, str(e)[-200:]))
        return out
    fails = []
    for inst in list(flat.instances.values()) + list(flat.instarrays.values()) + list(flat.instbundles.values()):
        if not isinstance(inst.of, (h.PrimitiveCall, h.ExternalModuleCall)):
            fails.append(("not_flat", "flatten() result still instantiates %r" % (inst.of,)))
            break
    got_ports = [(p.name, p.width, p.direction.name) for p in flat.ports.values()]
    if got_ports != src_ports:
        fails.append(("ports_changed", "ports %s became %s" % (src_ports, got_ports)))
    if len(flat.instances) != len(want["devices"]):
        fails.append(("leaf_count", "%d leaf devices in the hierarchy, %d instances after flatten" % (len(want["devices"]), len(flat.instances))))
    try:
        pkg = h.to_proto(flat)
        got = pkgread.flatten(pkg, tag_params=design.TAG_PARAMS)
        for d in got["devices"]:
            d["path"] = tuple(x for seg in d["path"] for x in seg.split(":"))
        verdict, why = iso.compare(want, got)
        if verdict == "diff":
            fails.append(("connectivity", why))
        elif verdict == "inconclusive":
            out["inconclusive"] = True
    except Exception as e:
        fails.append(("flat_module_does_not_export", "%s: %s" % (type(e).__name__, str(e)[-200:])))
    if not fails and spec.get("again"):
        # flatten is asked again after one leaf of the (elaborated) hierarchy was re-targeted in place - the edit a PDK
        # compile performs on every leaf it maps; the second answer describes the hierarchy as it is then
        NEW = 987654321
        try:
            edited = retarget_one_leaf(h, top, NEW, spec["again"])
            if edited:
                flat2 = hflatten(top)
                got2 = pkgread.flatten(h.to_proto(flat2), tag_params=design.TAG_PARAMS)
                n_new = sum(1 for d in got2["devices"] if d["params"] == NEW)
                out["again"] = True
                if len(got2["devices"]) != len(want["devices"]):
                    fails.append(("leaf_count:again", "%d leaf devices in the hierarchy, %d after the second flatten" % (len(want["devices"]), len(got2["devices"]))))
                elif n_new == 0:
                    fails.append(("second_flatten_stale", "instance %r was re-targeted (its tag parameter set to %d) after a first flatten(); a second flatten() of the same top shows no device with that tag" % (edited, NEW)))
        except Exception as e:
            fails.append(("second_flatten_raises", "%s: %s" % (type(e).__name__, str(e)[-200:])))
    out.update(status="returned", fails=fails)
    return out


def retarget_one_leaf(h, top, newtag, pick):
    """Give one leaf instance reachable from `top` a new call of the same cell with tag `newtag`; returns its name or None."""
    leaves, seen = [], set()

    def walk(m):
        if id(m) in seen:
            return
        seen.add(id(m))
        for inst in m.instances.values():
            if isinstance(inst.of, (h.PrimitiveCall, h.ExternalModuleCall)):
                leaves.append((m, inst))
            elif isinstance(inst.of, h.Module):
                walk(inst.of)
    walk(top)
    if not leaves:
        return None
    m, inst = leaves[pick % len(leaves)]
    if isinstance(inst.of, h.ExternalModuleCall):
        inst.of = inst.of.module(tag=newtag)
    else:
        import hdl21.primitives as hp
        tagname = None
        for cls, k in ((hp.IdealResistor, "R"), (hp.IdealCapacitor, "C"), (hp.IdealInductor, "L"), (hp.VoltageControlledVoltageSource, "Vcvs"),
                       (hp.Mos, "Mos"), (hp.Bipolar, "Bipolar"), (hp.Diode, "Diode"), (hp.ThreeTerminalResistor, "Res3")):
            if inst.of.prim is cls:
                tagname = model.PRIMS[k][3]
        if tagname is None:
            return None
        inst.of = inst.of.prim(**{tagname: newtag})
    return "%s.%s" % (m.name, inst.name)


def adversarial(d, spec):
    """Rename one signal or instance onto a ':'-joined path name that flatten would generate."""
    s = copy.deepcopy(spec)
    cands = []
    for mi, m in enumerate(s["modules"]):
        for inst in m["insts"]:
            if inst["of"][0] == "mod" and inst.get("kind", "inst") == "inst":
                child = s["modules"][inst["of"][1]]
                for sg in child["sigs"]:
                    if sg[2] == "sig":
                        cands.append((mi, "sig", inst["name"] + ":" + sg[0]))
                for ci in child["insts"]:
                    if ci.get("kind", "inst") == "inst":
                        cands.append((mi, "inst", inst["name"] + ":" + ci["name"]))
    if not cands:
        return None
    mi, kind, new = d.choice(cands)
    m = s["modules"][mi]
    if kind == "sig" and mi == s["top"] and d.bool(35):
        # a spare pin: a top-level port nothing is connected to, named like a path name
        wdt = 1
        for inst in m["insts"]:
            if new.startswith(inst["name"] + ":") and inst["of"][0] == "mod":
                wdt = max([sg[1] for sg in s["modules"][inst["of"][1]]["sigs"] if sg[0] == new.split(":", 1)[1]] or [1])
        m["sigs"].append([new, wdt, d.choice(["in", "out", "inout", "port"])])
        for mm in s["modules"]:
            if mm.get("style") == "class":
                mm["style"] = "proc"
        s["spare_port"] = True
        return s
    from .c05 import rename
    if kind == "sig":
        olds = [sg[0] for sg in m["sigs"] if sg[2] == "sig"]
    else:
        olds = [i["name"] for i in m["insts"] if not new.startswith(i["name"] + ":")]
    if not olds:
        return None
    old = d.choice(olds)
    rename(s, mi, kind, old, new)
    for mm in s["modules"]:
        if mm.get("style") == "class":
            mm["style"] = "proc"
    return s


def shard(idx, n, tier):
    env.setup_paths()
    import hdl21  # noqa
    par.server()
    import hypothesis
    from hypothesis import given, settings, HealthCheck, Phase, strategies as st
    res = core.Result()
    total = (40000 if tier == "thorough" else 3200) // n
    variants = [("whole", gen.Opts(whole_only=True, leaf_everywhere=True, min_modules=2, max_modules=4, max_insts=4, slices=False, concats=False), 6),
                ("mixed", gen.Opts(leaf_everywhere=True, min_modules=2, max_modules=4, max_insts=3), 2),
                ("names", gen.Opts(whole_only=True, leaf_everywhere=True, min_modules=2, max_modules=3, max_insts=3, slices=False, concats=False, bundles=False), 2)]
    wsum = sum(w for _, _, w in variants)
    for vi, (vname, opts, w) in enumerate(variants):
        nex = max(1, total * w // wsum)

        @hypothesis.seed(env.subseed(PID, idx, vi))
        @settings(max_examples=nex, database=None, deadline=None, derandomize=False,
                  suppress_health_check=list(HealthCheck), phases=[Phase.generate], report_multiple_bugs=False)
        @given(st.data())
        def run(data):
            spec = data.draw(gen.designs(opts))
            feats = [f for f in spec.get("features", []) if f in ("array", "pair", "bundle_port", "noconn", "portref", "slice", "concat", "array_per_element")]
            case = {k: spec[k] for k in spec if k != "features"}
            if data.draw(st.integers(0, 3)) == 0:
                case["again"] = data.draw(st.integers(1, 50))
            if vname == "names":
                adv = adversarial(gen.D(data.draw), case)
                if adv is None:
                    return
                case = adv
                feats.append("adversarial_name")
                if adv.get("spare_port"):
                    feats.append("adversarial_spare_port")
            v = par.pristine(eval_case, case)
            if par.is_exc(v):
                res.harness_error("%s %s %s" % (v[1], v[2], v[3][-600:]))
                return
            if v["status"] == "model_reject":
                res.notes["generator_invalid:" + v["detail"][:40]] += 1
                return
            if v["status"] == "reject":
                res.reject(v["sig"])
                res.evaluations += 1
                return
            dp = depth(case, case["top"])
            bus = any(sg[1] > 1 for m in case["modules"] for sg in m["sigs"])
            extbelow = any(i["of"][0] == "cell" and case["cells"][i["of"][1]]["kind"] == "ext"
                           for k, m in enumerate(case["modules"]) if k != case["top"] for i in m["insts"])
            feats += ["depth%d" % dp, "class_must" if v["must"] else "class_may_refuse"]
            if extbelow:
                feats.append("ext_leaf_below_top")
            if v.get("again"):
                feats.append("flattened_again_after_in_place_retarget")
            if v["status"] == "raised":
                feats.append("flatten_raised")
                if v["must"]:
                    res.fail("rejected_flattenable:" + v["sig"], case, "flatten raised on a hierarchy of whole-signal connections: " + v["detail"])
            else:
                for sig, detail in v["fails"]:
                    res.fail(sig + (":adversarial_name" if v["colon"] else ""), case, detail)
            res.case(case, dp >= 3 or bus or v["colon"] or extbelow, feats)

        run()
    return res


def replay(case):
    v = par.in_child(eval_case, case)
    if par.is_exc(v):
        raise RuntimeError(v[2])
    if v["status"] == "raised":
        return [("rejected_flattenable:" + v["sig"], v["detail"])] if v["must"] else []
    if v["status"] == "returned":
        return [(s + (":adversarial_name" if v["colon"] else ""), d) for s, d in v["fails"]]
    return []


def main(tier):
    t0 = time.time()
    env.setup_paths()
    import hdl21  # noqa
    res = par.run_shards(shard, extra=(tier,))
    return core.finish(PID, LEVEL, tier, res, RULE, ASSUME, replay, t0, min_nontrivial=100)
