"""C01 - Elaboration and export preserve the connectivity the designer wrote.

Generated design programs (spec) -> (a) reference interpreter, (b) Hdl21 build + to_proto, read back
with the netlisters' bit-order convention; the two flat circuits must be isomorphic."""
import time
from .. import env, core, par, gen, design, shrink as shr, model

PID = "C01"
LEVEL = "translation_validation"
RULE = ("Hypothesis-generated hierarchical design programs (external-module / primitive leaves, buses, nested slices and "
        "concats, port-reference chains/fans/cycles, (shared, named) no-connects, nested/flipped/role bundles as ports and "
        "internal instances, bundle refs, anonymous bundles incl. dict shorthand, arrays broadcast/per-element, Pairs, shared "
        "sub-modules; built procedurally, class-style or in generators). Each is exported by Hdl21 in a pristine forked "
        "process and the package, read MSB-first as the vlsirtools netlisters do, is compared up to isomorphism with the "
        "reference interpreter's flat circuit. Non-trivial = at least two devices share a net AND the design uses a slice, "
        "concat, port reference, no-connect, bundle connection, array or pair; distinct by canonical spec hash.")
ASSUME = ["the reference interpreter (vlib/model.py) is the documented meaning of a design",
          "vlsir / vlsirtools bit order: signals and slices expand MSB first, Concat parts in list order",
          "an exception on a generated design is a rejection (counted, classified), not a violation of C01",
          "port references inside slices/concats are generated acyclically; references to array/pair ports are not generated"]

NT_FEATS = {"slice", "concat", "portref", "portref_in_expr", "noconn", "bundle_conn", "anon_bundle", "subbundle_ref",
            "bundle_ref", "array", "pair", "bundle_portref"}


def shares_net(flat):
    seen = {}
    for i, d in enumerate(flat["devices"]):
        for bits in d["terms"].values():
            for n in bits:
                if n in seen and seen[n] != i:
                    return True
                seen[n] = i
    return False


def suspects(spec):
    """Constructs in `spec` that are the triggers of open known findings (narrow, structural)."""
    out = []
    for m in spec["modules"]:
        for inst in m["insts"]:
            if inst.get("kind") == "array":
                iface = {p[1]: p for p in model.target_iface(spec, inst["of"])}
                for pname, e in inst["conns"]:
                    if e[0] == "nc" and pname in iface and iface[pname][0] == "bun":
                        out.append("nc_on_array_bundle_port")
    return sorted(set(out))


def eval_case(spec):
    v = design.evaluate(spec)
    if v.get("status") == "fail" and v.get("sig") == "connectivity":
        sus = suspects(spec)
        if sus:
            v["sig"] = "connectivity:" + "+".join(sus)
    v.pop("pkg", None)
    try:
        v["shared"] = shares_net(model.flatten(spec))
    except Exception:
        v["shared"] = False
    return v


def run_one(res, spec, opts_name=""):
    feats = list(spec.get("features", []))
    try:
        v = par.pristine(eval_case, spec)
    except par.ChildCrash as e:
        res.harness_error("child crash: %s" % e)
        return None
    if par.is_exc(v):
        res.harness_error("harness exception in child: %s: %s\n%s" % (v[1], v[2], v[3][-1500:]))
        return None
    st = v["status"]
    if st == "model_reject":
        res.notes["generator_produced_invalid_spec"] += 1
        res.notes["invalid:" + v["detail"][:60]] += 1
        return v
    nt = bool(v.get("shared")) and bool(NT_FEATS & set(feats))
    if st == "reject":
        res.reject(v["sig"])
        res.evaluations += 1
        return v
    if st == "inconclusive":
        res.notes["iso_inconclusive"] += 1
        res.evaluations += 1
        return v
    case = {k: spec[k] for k in spec if k != "features"}
    if st == "fail":
        res.fail(v["sig"], case, v["detail"])
    for kind, text in v.get("closure", []):
        res.notes["closure_error:" + kind] += 1
    if v.get("spice"):
        res.notes["spice_text_reading:" + str(v["spice"])[:60]] += 1
        if v["spice"] == "iso":
            feats.append("second_reading_spice_text")
    res.case(case, nt, feats)
    return v


def blind_names(spec, d):
    """Rename 1-3 designer signals / ports / instances onto names the elaborator is going to invent in that module for instance-related
    objects (<inst>_<port> implicit signals, <array>_<k> elements, <pair>_p / _n), without looking at what it does invent.
    Renaming designer objects consistently leaves the circuit unchanged."""
    import copy
    from .c05 import rename, designer_names
    s = copy.deepcopy(spec)
    feats = s.pop("features", [])
    done = 0
    for _ in range(d.int(1, 3)):
        mi = d.int(0, len(s["modules"]) - 1)
        m = s["modules"][mi]
        if m.get("history") or not m["insts"] or not m["sigs"]:
            continue
        # ports without a connection of their own (they live on references: an implicit signal is certain to be created for them)
        opens = [(i2, p) for i2 in m["insts"] for p in model.target_iface(s, i2["of"]) if p[0] == "sig" and p[1] not in dict(i2["conns"])]
        if opens and d.bool(60):
            inst, p0 = d.choice(opens)
            cands = [inst["name"] + "_" + p0[1]]
            kind = "inst"
        else:
            inst = d.choice(m["insts"])
            kind = inst.get("kind", "inst")
            cands = [inst["name"] + "_" + p[1] for p in model.target_iface(s, inst["of"]) if p[0] == "sig"]
        if kind == "array":
            cands += ["%s_%d" % (inst["name"], k) for k in range(inst["n"])]
        if kind == "pair":
            cands += [inst["name"] + "_" + mn for mn in (inst.get("members") or ["p", "n"])]
        if not cands:
            continue
        new = d.choice(cands) + d.choice(["", "", "_"])
        if new in designer_names(m):
            continue
        others = [i2["name"] for i2 in m["insts"] if not new.startswith(i2["name"] + "_")]
        if others and d.bool(30):
            # ... or another instance (array, pair) is what carries the invented-looking name
            rename(s, mi, "inst", d.choice(others), new)
            done += 1
            continue
        ports = [sg[0] for sg in m["sigs"] if sg[2] != "sig"]
        old = d.choice(ports) if ports and d.bool(50) else d.choice([sg[0] for sg in m["sigs"]])
        rename(s, mi, "sig", old, new)
        done += 1
    if not done:
        return None
    s["features"] = list(feats) + ["designer_name_like_an_invented_one"]
    return s


def shard(idx, n, tier):
    env.setup_paths()
    import hdl21  # noqa  (imported, never used to build anything in this process)
    par.server()
    import hypothesis
    from hypothesis import given, settings, HealthCheck, Phase
    res = core.Result()
    total = 80000 if tier == "thorough" else 6400
    variants = [("full", gen.Opts(), 5), ("nobundle", gen.Opts(bundles=False, pairs=False, same_name_ext=True), 2),
                ("refs", gen.Opts(bundles=False, arrays=False, pairs=False, max_insts=5, max_modules=2), 2),
                ("history", gen.Opts(history=True, max_modules=3), 2),  # ports re-connected before their final connection
                ("leafnames", gen.Opts(adversarial_leaf_names=True, max_modules=3, arrays=False, pairs=False), 1)]
    wsum = sum(w for _, _, w in variants)
    for vi, (name, opts, w) in enumerate(variants):
        nex = max(1, total * w // wsum // n)

        @hypothesis.seed(env.subseed(PID, idx, vi))
        @settings(max_examples=nex, database=None, deadline=None, derandomize=False,
                  suppress_health_check=list(HealthCheck), phases=[Phase.generate], report_multiple_bugs=False)
        @given(gen.designs(opts))
        def run(spec):
            run_one(res, spec, name)

        run()

    # designer names chosen like the ones the elaborator invents (blind: no first export to learn them from)
    from hypothesis import strategies as st

    @hypothesis.seed(env.subseed(PID, idx, "blindnames"))
    @settings(max_examples=max(1, total // 12 // n), database=None, deadline=None, derandomize=False,
              suppress_health_check=list(HealthCheck), phases=[Phase.generate], report_multiple_bugs=False)
    @given(st.data())
    def run_blind(data):
        spec = data.draw(gen.designs(gen.Opts(max_modules=3, max_insts=4)))
        s2 = blind_names(spec, gen.D(data.draw))
        if s2 is None:
            return
        try:
            model.flatten(s2)
        except model.ModelError:
            res.notes["blind_rename_invalid"] += 1
            return
        run_one(res, s2, "blindnames")

    run_blind()
    return res


def box_exprs():
    """Every width-2 connection expression of depth <= 2 over a 3-bit signal s and a 2-bit signal t (plus references to / slices of
    the other instance's port), and every width-1 one: the enumerated box of the thorough tier."""
    S, T = ["sig", "s"], ["sig", "t"]
    sl = lambda e, i: ["slice", e, i]
    ones = [sl(S, 0), sl(S, 1), sl(S, 2), sl(S, -1), sl(S, -3), sl(T, 0), sl(T, 1), sl(T, -2), sl(S, [2, None, None]), sl(T, [None, 1, None])]
    twos = [T, sl(T, [None, None, None]), sl(S, [0, 2, None]), sl(S, [1, 3, None]), sl(S, [-3, -1, None]), sl(S, [None, 2, 1]), sl(S, [1, None, None]),
            sl(S, [-2, None, None])]
    atoms = [sl(S, 0), sl(S, 1), sl(S, 2), sl(T, 0), sl(T, 1), sl(S, -1), sl(T, -1)]
    for a in atoms:
        for b in atoms:
            twos.append(["cat", [a, b]])
    for outer in (["cat", [S, T]], ["cat", [T, S]], ["cat", [sl(S, 1), T, sl(S, [0, 2, None])]]):
        w = 5
        for a in range(0, w - 1):
            twos.append(sl(outer, [a, a + 2, None]))
        twos.append(sl(outer, [-2, None, None]))
    for inner in (sl(S, [0, 3, None]), sl(S, [None, None, None])):
        twos += [sl(inner, [0, 2, None]), sl(inner, [1, 3, None]), sl(inner, [-2, None, None])]
    twos.append(["cat", [sl(["cat", [S]], [1, 3, None])]])
    twos.append(["cat", [["cat", [sl(S, 2)]], ["cat", [sl(T, 0)]]]])
    return ones, twos


def box_cases():
    ones, twos = box_exprs()
    cell = {"kind": "ext", "name": "X0", "ports": [["a", 2, "in"], ["b", 1, "out"]]}

    def mk(a0, b0, a1, b1):
        return {"cells": [cell], "bundles": [], "top": 0, "modules": [{"name": "M0", "sigs": [["s", 3, "sig"], ["t", 2, "in"]], "bundles": [], "insts": [
            {"name": "i0", "of": ["cell", 0], "kind": "inst", "tag": 1, "conns": [["a", a0], ["b", b0]]},
            {"name": "i1", "of": ["cell", 0], "kind": "inst", "tag": 2, "conns": [["a", a1], ["b", b1]]}]}]}
    fixed_b0, fixed_b1 = ["slice", ["sig", "s"], 0], ["slice", ["sig", "t"], 1]
    for a0 in twos:
        for a1 in twos:
            yield mk(a0, fixed_b0, a1, fixed_b1)
        # the second instance's port refers to (a slice of / a concat with) the first one's
        yield mk(a0, fixed_b0, ["pref", "i0", "a"], fixed_b1)
        yield mk(a0, fixed_b0, ["cat", [["slice", ["pref", "i0", "a"], [1, 2, None]], ["slice", ["pref", "i0", "a"], [0, 1, None]]]], fixed_b1)
        yield mk(a0, ["slice", ["pref", "i1", "a"], [0, 1, None]], ["sig", "t"], fixed_b1)
    for b0 in ones:
        for b1 in ones:
            yield mk(["sig", "t"], b0, ["slice", ["sig", "s"], [0, 2, None]], b1)
        yield mk(["sig", "t"], b0, ["slice", ["sig", "s"], [0, 2, None]], ["pref", "i0", "b"])


def box_shard(idx, n):
    env.setup_paths()
    import hdl21  # noqa
    par.server()
    res = core.Result()
    for k, spec in enumerate(box_cases()):
        if k % n != idx:
            continue
        spec = dict(spec, features=["box", "slice", "concat"])
        run_one(res, spec, "box")
    res.notes["enumerated_box_cases"] += res.evaluations
    return res


def replay(case):
    v = par.in_child(eval_case, case)
    if par.is_exc(v):
        raise RuntimeError("%s: %s" % (v[1], v[2]))
    if v["status"] == "fail":
        return [(v["sig"], v["detail"])]
    return []


def shrink_fn(case, sig):
    def pred(s):
        v = par.in_child(eval_case, s)
        return (not par.is_exc(v)) and v["status"] == "fail" and v.get("sig") == sig
    return shr.shrink(case, pred, budget=200)


def main(tier):
    t0 = time.time()
    env.setup_paths()
    import hdl21  # noqa
    res = par.run_shards(shard, extra=(tier,))
    extra = {}
    if tier == "thorough":
        res.merge(par.run_shards(box_shard))
        extra["exhaustive_part"] = ("enumerated box (thorough tier): one parent with a 3-bit and a 2-bit signal and two instances of a two-port cell; every "
                                    "pair of width-2 connection expressions of depth <= 2 (slices in every equivalent index form, concats of bit atoms, slices "
                                    "of concats and of slices, single-part and nested concats), every pair of width-1 expressions, and references to / slices "
                                    "of the other instance's port. Complete for that box; everything else is sampled.")
    return core.finish(PID, LEVEL, tier, res, RULE, ASSUME, replay, t0, shrink_fn=shrink_fn, min_nontrivial=50, extra=extra)
