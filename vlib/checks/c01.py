"""C01 - Elaboration and export preserve the connectivity the designer wrote.

Generated design programs (spec) -> (a) reference interpreter, (b) Hdl21 build + to_proto, read back
with the netlisters' bit-order convention; the two flat circuits must be isomorphic."""
import time
from .. import env, core, par, gen, design, shrink as shr, model

PID = "C01"
LEVEL = "translation_validation"
RULE = ("Hypothesis-generated hierarchical design programs (external-module / primitive leaves, buses, nested slices and "
        "concats, port-reference chains/fans/cycles, (shared, named) no-connects, nested/flipped/role bundles as ports and "
        "internal instances, bundle refs, anonymous bundles incl. dict shorthand, arrays broadcast/per-element, Pairs, shared "
        "sub-modules; built procedurally, class-style or in generators). Each is exported by Hdl21 in a pristine forked "
        "process and the package, read MSB-first as the vlsirtools netlisters do, is compared up to isomorphism with the "
        "reference interpreter's flat circuit. Non-trivial = at least two devices share a net AND the design uses a slice, "
        "concat, port reference, no-connect, bundle connection, array or pair; distinct by canonical spec hash.")
ASSUME = ["the reference interpreter (vlib/model.py) is the documented meaning of a design",
          "vlsir / vlsirtools bit order: signals and slices expand MSB first, Concat parts in list order",
          "an exception on a generated design is a rejection (counted, classified), not a violation of C01",
          "port references inside slices/concats are generated acyclically; references to array/pair ports are not generated"]

NT_FEATS = {"slice", "concat", "portref", "portref_in_expr", "noconn", "bundle_conn", "anon_bundle", "subbundle_ref",
            "bundle_ref", "array", "pair", "bundle_portref"}


def shares_net(flat):
    seen = {}
    for i, d in enumerate(flat["devices"]):
        for bits in d["terms"].values():
            for n in bits:
                if n in seen and seen[n] != i:
                    return True
                seen[n] = i
    return False


def suspects(spec):
    """Constructs in `spec` that are the triggers of open known findings (narrow, structural)."""
    out = []
    for m in spec["modules"]:
        for inst in m["insts"]:
            if inst.get("kind") == "array":
                iface = {p[1]: p for p in model.target_iface(spec, inst["of"])}
                for pname, e in inst["conns"]:
                    if e[0] == "nc" and pname in iface and iface[pname][0] == "bun":
                        out.append("nc_on_array_bundle_port")
    return sorted(set(out))


def eval_case(spec):
    v = design.evaluate(spec)
    if v.get("status") == "fail" and v.get("sig") == "connectivity":
        sus = suspects(spec)
        if sus:
            v["sig"] = "connectivity:" + "+".join(sus)
    v.pop("pkg", None)
    try:
        v["shared"] = shares_net(model.flatten(spec))
    except Exception:
        v["shared"] = False
    return v


def run_one(res, spec, opts_name=""):
    feats = list(spec.get("features", []))
    try:
        v = par.pristine(eval_case, spec)
    except par.ChildCrash as e:
        res.harness_error("child crash: %s" % e)
        return None
    if par.is_exc(v):
        res.harness_error("harness exception in child: %s: %s\n%s" % (v[1], v[2], v[3][-1500:]))
        return None
    st = v["status"]
    if st == "model_reject":
        res.notes["generator_produced_invalid_spec"] += 1
        res.notes["invalid:" + v["detail"][:60]] += 1
        return v
    nt = bool(v.get("shared")) and bool(NT_FEATS & set(feats))
    if st == "reject":
        res.reject(v["sig"])
        res.evaluations += 1
        return v
    if st == "inconclusive":
        res.notes["iso_inconclusive"] += 1
        res.evaluations += 1
        return v
    case = {k: spec[k] for k in spec if k != "features"}
    if st == "fail":
        res.fail(v["sig"], case, v["detail"])
    for kind, text in v.get("closure", []):
        res.notes["closure_error:" + kind] += 1
    if v.get("spice"):
        res.notes["spice_text_reading:" + str(v["spice"])[:60]] += 1
        if v["spice"] == "iso":
            feats.append("second_reading_spice_text")
    res.case(case, nt, feats)
    return v


def shard(idx, n, tier):
    env.setup_paths()
    import hdl21  # noqa  (imported, never used to build anything in this process)
    par.server()
    import hypothesis
    from hypothesis import given, settings, HealthCheck, Phase
    res = core.Result()
    total = 80000 if tier == "thorough" else 6400
    variants = [("full", gen.Opts(), 5), ("nobundle", gen.Opts(bundles=False, pairs=False), 2),
                ("refs", gen.Opts(bundles=False, arrays=False, pairs=False, max_insts=5, max_modules=2), 2),
                ("history", gen.Opts(history=True, max_modules=3), 2),  # ports re-connected before their final connection
                ("leafnames", gen.Opts(adversarial_leaf_names=True, max_modules=3, arrays=False, pairs=False), 1)]
    wsum = sum(w for _, _, w in variants)
    for vi, (name, opts, w) in enumerate(variants):
        nex = max(1, total * w // wsum // n)

        @hypothesis.seed(env.subseed(PID, idx, vi))
        @settings(max_examples=nex, database=None, deadline=None, derandomize=False,
                  suppress_health_check=list(HealthCheck), phases=[Phase.generate], report_multiple_bugs=False)
        @given(gen.designs(opts))
        def run(spec):
            run_one(res, spec, name)

        run()
    return res


def replay(case):
    v = par.in_child(eval_case, case)
    if par.is_exc(v):
        raise RuntimeError("%s: %s" % (v[1], v[2]))
    if v["status"] == "fail":
        return [(v["sig"], v["detail"])]
    return []


def shrink_fn(case, sig):
    def pred(s):
        v = par.in_child(eval_case, s)
        return (not par.is_exc(v)) and v["status"] == "fail" and v.get("sig") == sig
    return shr.shrink(case, pred, budget=200)


def main(tier):
    t0 = time.time()
    env.setup_paths()
    import hdl21  # noqa
    res = par.run_shards(shard, extra=(tier,))
    return core.finish(PID, LEVEL, tier, res, RULE, ASSUME, replay, t0, shrink_fn=shrink_fn, min_nontrivial=50)
