"""C07 - Elaboration results do not depend on elaboration history.

Design DAGs (<=5 modules, shared sub-modules, bundle-valued ports, port references) x histories of
construct / elaborate / to_proto / netlist calls; every history runs in its own pristine process and
must end with the same serialized package as "construct everything, to_proto(top)"."""
import io, itertools, json, time
from .. import env, core, par, gen, model
from ..build import Builder

PID = "C07"
LEVEL = "exploration"
RULE = ("[at the end of every history each elaborated module is also offered additions that re-use its existing names - all must be refused, and the design must export as before] "
        "Hypothesis-generated design DAGs of 2..5 modules (shared sub-modules, bundle-valued ports, port references, arrays, pairs, "
        "generator-built modules). Per design, enumerated histories: every order of single-module elaborate calls (all n! for n<=4, "
        "60 sampled for n=5), each with lazy construction (a module is constructed when first needed, i.e. parents after already "
        "elaborated children) and with everything constructed first; every ordered pair of modules as one list call to elaborate and "
        "to_proto; netlist calls in each format before the final export; plus Hypothesis-sampled longer mixed histories with repeats. "
        "Each history runs in its own pristine process and ends with to_proto(top) twice. Oracle: byte equality of "
        "SerializeToString(deterministic=True) with the baseline history, idempotence of the final export, and add() on every "
        "elaborated module raising. Non-trivial = history that elaborates a proper sub-module before the top, on a design with a "
        "bundle-valued port or a port reference; distinct by (design hash, history).")
ASSUME = ["an exception raised by a vlsirtools netlister inside a history step is not Hdl21's result: caught, the history continues",
          "designs whose baseline export raises are rejections (counted), not histories"]


def reach(spec, k, acc=None):
    acc = set() if acc is None else acc
    if k in acc:
        return acc
    acc.add(k)
    for inst in spec["modules"][k]["insts"]:
        if inst["of"][0] == "mod":
            reach(spec, inst["of"][1], acc)
    return acc


def run_history(spec, hist):
    """In a pristine child. -> {"bytes": hex | None, "error": str | None, "second_differs": bool, "not_frozen": [...]}"""
    env.setup_paths()
    import hdl21 as h
    b = Builder(spec)
    top = spec["top"]
    elaborated = set()
    out = {"step_errors": []}
    try:
        for op in hist:
            kind = op[0]
            if kind == "construct_all":
                for k in range(len(spec["modules"])):
                    b.module(k)
            elif kind == "construct":
                b.module(op[1])
            elif kind in ("elaborate", "to_proto", "netlist"):
                mods = [b.module(k) for k in op[1]]
                arg = mods if (len(mods) > 1 or (len(op) > 2 and op[-1] == "list")) else mods[0]
                if kind == "elaborate":
                    h.elaborate(arg)
                elif kind == "to_proto":
                    h.to_proto(arg)
                else:
                    try:
                        h.netlist(h.to_proto(arg), io.StringIO(), fmt=op[2])
                    except Exception as e:
                        # to_proto part failing is Hdl21's; a netlister refusal is not
                        import traceback
                        tb = "".join(traceback.format_tb(e.__traceback__))
                        if "vlsirtools" not in tb:
                            raise
                        out["step_errors"].append(type(e).__name__)
                for k in op[1]:
                    elaborated |= reach(spec, k)
        t = b.module(top)
        p1 = h.to_proto(t).SerializeToString(deterministic=True)
        p2 = h.to_proto(t).SerializeToString(deterministic=True)
        elaborated |= reach(spec, top)
    except Exception as e:
        import traceback
        out.update(bytes=None, error="%s: %s" % (type(e).__name__, str(e)[-400:]), tb=traceback.format_exc()[-1200:])
        return out
    out.update(bytes=p1.hex(), error=None, second_differs=(p1 != p2))
    nf = []
    for k in sorted(elaborated):
        m = b.module(k)
        try:
            m.add(h.Signal(name="zz_late_addition"))
            nf.append(k)
        except Exception:
            pass
        try:
            setattr(m, "zz_late_attr", h.Signal())
            if k not in nf:
                nf.append(k)
        except Exception:
            pass
    # refused additions that re-use an existing name must leave the module as it was
    for k in sorted(elaborated):
        m = b.module(k)
        for nm in list(m.namespace):
            for how in (0, 1, 2):
                try:
                    if how == 0:
                        m.add(h.Signal(name=nm))
                    elif how == 1:
                        setattr(m, nm, h.Input(width=3))
                    else:
                        m.add(h.Instance(of=h.R(r=1)), name=nm)
                    if k not in nf:
                        nf.append(k)
                except Exception:
                    pass
    out["not_frozen"] = nf
    try:
        p3 = h.to_proto(t).SerializeToString(deterministic=True)
        out["after_refused_differs"] = (p3 != p1)
    except Exception as e:
        out["after_refused_differs"] = True
        out["after_refused_error"] = "%s: %s" % (type(e).__name__, str(e)[-300:])
    return out


def exportable(spec):
    """In a pristine child: indices of the modules that export on their own (the others are rejections, not histories)."""
    env.setup_paths()
    import hdl21 as h
    b = Builder(spec)
    ok = []
    for k in range(len(spec["modules"])):
        try:
            h.to_proto(b.module(k))
            ok.append(k)
        except Exception:
            pass
    return ok


def histories(spec, rnd_orders, mods):
    n = len(mods)
    out = []
    perms = list(itertools.permutations(mods))
    if n > 4:
        perms = [perms[i] for i in rnd_orders if i < len(perms)]
    for p in perms:
        steps = [["elaborate", [k]] for k in p]
        out.append(steps)
        out.append([["construct_all"]] + steps)
    for a, b in itertools.permutations(mods, 2):
        out.append([["elaborate", [a, b]]])
        out.append([["to_proto", [a, b]]])
        out.append([["to_proto", [a]], ["elaborate", [b]], ["to_proto", [b, a]]])
    for k in mods:
        out.append([["elaborate", [k], "list"]])
        out.append([["to_proto", [k]], ["to_proto", [k]]])
        for fmt in ("spice", "verilog", "spectre"):
            out.append([["netlist", [k], fmt]])
    out.append([["elaborate", mods], ["elaborate", list(reversed(mods))]])
    return out


def eval_design(spec, rnd_orders, extra_hists):
    """Parent-side: run baseline + all histories through the fork server. -> list of per-history results"""
    base = par.pristine(run_history, spec, [["construct_all"]])
    if par.is_exc(base):
        return {"harness": "%s %s" % (base[1], base[2])}
    if base["bytes"] is None:
        return {"reject": base["error"]}
    ok = par.pristine(exportable, spec)
    if par.is_exc(ok):
        return {"harness": "%s %s" % (ok[1], ok[2])}
    # modules that do not export on their own (and everything instantiating them) stay out of the histories
    extra_hists = [[op for op in hst if op[0] == "construct_all" or all(k in ok for k in ([op[1]] if op[0] == "construct" else op[1]))] for hst in extra_hists]
    results = []
    for hist in histories(spec, rnd_orders, ok) + [x for x in extra_hists if x]:
        r = par.pristine(run_history, spec, hist)
        if par.is_exc(r):
            return {"harness": "%s %s %s" % (r[1], r[2], r[3][-600:])}
        fails = []
        if r["bytes"] is None:
            fails.append(("history_raises", "baseline exports, but after history %s: %s" % (json.dumps(hist), r["error"])))
        else:
            if r["bytes"] != base["bytes"]:
                fails.append(("history_changes_package", "package after history %s differs from the baseline package" % json.dumps(hist)))
            if r["second_differs"]:
                fails.append(("export_not_idempotent", "exporting twice at the end of history %s gave two different packages" % json.dumps(hist)))
            if r["not_frozen"]:
                fails.append(("elaborated_module_accepts_additions", "modules %s accepted add()/setattr after elaboration (history %s)" % (r["not_frozen"], json.dumps(hist))))
            if r.get("after_refused_differs"):
                fails.append(("refused_addition_changes_package", "after refused additions re-using existing names the design exports differently (%s; history %s)" % (
                    r.get("after_refused_error", "different bytes"), json.dumps(hist))))
        results.append((hist, fails))
    if base["second_differs"]:
        results.append(([["construct_all"]], [("export_not_idempotent", "baseline export twice differs")]))
    return {"results": results}


def shard(idx, n, tier):
    env.setup_paths()
    import hdl21  # noqa
    par.server()
    import hypothesis
    from hypothesis import given, settings, HealthCheck, Phase, strategies as st
    res = core.Result()
    ndes = (1920 if tier == "thorough" else 96) // n
    optsets = [gen.Opts(min_modules=2, max_modules=5 if tier == "thorough" else 4, max_insts=3, wide=False),
               # nested instance bundles: Pairs of modules which themselves hold Pairs
               gen.Opts(min_modules=3, max_modules=4, max_insts=2, wide=False, pair_pct=60, array_pct=10, bundle_ports=False)]

    @st.composite
    def cases(draw):
        spec = draw(gen.designs(optsets[0] if draw(st.integers(0, 3)) else optsets[1]))
        nm = len(spec["modules"])
        orders = draw(st.lists(st.integers(0, 119), min_size=60, max_size=60, unique=True)) if nm > 4 else []
        extra = []
        for _ in range(draw(st.integers(4, 10))):
            steps = []
            for _ in range(draw(st.integers(2, 6))):
                kind = draw(st.sampled_from(["elaborate", "elaborate", "to_proto", "netlist", "construct"]))
                ks = draw(st.lists(st.integers(0, nm - 1), min_size=1, max_size=3))
                if kind == "construct":
                    steps.append(["construct", ks[0]])
                elif kind == "netlist":
                    steps.append(["netlist", ks, draw(st.sampled_from(["spice", "verilog", "spectre"]))])
                else:
                    steps.append([kind, ks])
            extra.append(steps)
        return spec, orders, extra

    @hypothesis.seed(env.subseed(PID, idx))
    @settings(max_examples=max(1, ndes), database=None, deadline=None, derandomize=False,
              suppress_health_check=list(HealthCheck), phases=[Phase.generate], report_multiple_bugs=False)
    @given(cases())
    def run(c):
        spec, orders, extra = c
        try:
            model.flatten(spec)
        except model.ModelError:
            res.notes["base_invalid"] += 1
            return
        sp = {k: spec[k] for k in spec if k != "features"}
        r = eval_design(sp, orders, extra)
        if "harness" in r:
            res.harness_error(r["harness"])
            return
        if "reject" in r:
            res.reject(r["reject"][:80])
            return
        feats = set(spec.get("features", []))
        interesting = bool(feats & {"bundle_port", "portref", "portref_in_expr", "bundle_portref", "portref_root_unconnected"})
        dh = env.canon_hash(sp)
        res.notes["designs"] += 1
        top = sp["top"]
        for hist, fails in r["results"]:
            case = {"spec": sp, "history": hist}
            for sig, detail in fails:
                res.fail(sig, case, detail)
            sub_first = any(op[0] in ("elaborate", "to_proto", "netlist") and top not in op[1] for op in hist[:1] + hist[1:2])
            res.case(case if len(json.dumps(sp)) < 3000 else {"history": hist, "spec": "(large)"}, interesting and sub_first,
                     ["op_" + op[0] for op in hist] + (["late_construction"] if hist and hist[0][0] != "construct_all" else []),
                     key=dh + json.dumps(hist))

    run()
    return res


def replay(case):
    spec, hist = case["spec"], case["history"]
    base = par.in_child(run_history, spec, [["construct_all"]])
    r = par.in_child(run_history, spec, hist)
    if par.is_exc(base) or par.is_exc(r):
        raise RuntimeError("replay child failed")
    if base["bytes"] is None:
        return []
    out = []
    if r["bytes"] is None:
        out.append(("history_raises", r["error"]))
    else:
        if r["bytes"] != base["bytes"]:
            out.append(("history_changes_package", "differs"))
        if r["second_differs"]:
            out.append(("export_not_idempotent", "second export differs"))
        if r["not_frozen"]:
            out.append(("elaborated_module_accepts_additions", str(r["not_frozen"])))
        if r.get("after_refused_differs"):
            out.append(("refused_addition_changes_package", r.get("after_refused_error", "different bytes")))
    return out


def main(tier):
    t0 = time.time()
    env.setup_paths()
    import hdl21  # noqa
    res = par.run_shards(shard, extra=(tier,))
    return core.finish(PID, LEVEL, tier, res, RULE, ASSUME, replay, t0, min_nontrivial=100)
