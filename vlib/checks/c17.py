"""C17 - Simulation input export is complete and faithful.

Hypothesis-generated Sim descriptions (every attribute type, nested sweeps / Monte-Carlo, every Scalar
form, every SaveTarget form), built three ways and exported alone or in lists; compared with a
reference encoder written from the statement."""
import json, time, pathlib
from decimal import Decimal
from fractions import Fraction
from .. import env, core, par

PID = "C17"
LEVEL = "exploration"
RULE = ("Hypothesis-generated Sim descriptions: a testbench with exactly one scalar port (plus invalid ones: no port, two ports, one "
        "bus port, one scalar plus a bundle port) and 0-8 attributes over Op, Dc, Ac, Tran, Noise (signal / pair / name outputs, "
        "instance / name sources), SweepAnalysis and MonteCarlo nested to depth 3, CustomAnalysis, every sweep kind, Param, Include, "
        "Lib, Meas (analysis object or any name; expressions and literal texts incl. padded and arbitrary short text), Literal, Save in each documented target form (mode, signal, list of signals, name, "
        "list of names), Options with bool / number / string / literal values; numeric fields in every Scalar form (int, float, "
        "Decimal, numeric string, Prefixed with any prefix, incl. 1..40-digit mantissas and long decimals placed 1e-29..1e-45 relative beside the midpoint of two adjacent doubles). Each Sim is built by constructor list, by @sim class body and through the "
        "add-methods (1 in 4 of those exported once before their last attributes are added), and exported alone and in lists of 1-3 Sims sharing or not sharing testbenches. Oracle: reference encoder - top "
        "names the testbench, present exactly once in the package; one entry per attribute in order with the expected kind, names, "
        "expressions, paths, sections, sweep kind and values (float nearest the exact value), inner analyses preserved, unnamed "
        "analyses pairwise distinct; all three construction styles export equal SimInputs; invalid testbenches raise. Non-trivial = Sim "
        "with a nested analysis, a non-mode save target, or a prefixed number with a non-unit prefix; distinct by canonical case text.")
ASSUME = ["list-valued save targets are encoded as the comma-joined names (the exporter's evident convention)",
          "SaveMode.SELECTED without targets, Literal-valued numeric fields and ExternalModuleCall testbenches are recorded, not asserted",
          "user-chosen analysis names come from an alphabet that cannot look like generated names"]

PREFIX_EXPS = [-24, -21, -18, -15, -12, -9, -6, -3, -2, -1, 0, 1, 2, 3, 6, 9, 12, 15, 18, 21, 24]


def H():
    env.setup_paths()
    import hdl21 as h
    import hdl21.sim as hs
    return h, hs


def scal(v):
    """case scalar -> python object"""
    h, hs = H()
    t = v["t"]
    if t == "int":
        return int(v["v"])
    if t == "float":
        return float.fromhex(v["v"])
    if t == "dec":
        return Decimal(v["v"])
    if t == "str":
        return v["v"]
    if t == "pref":
        from hdl21.prefix import Prefix, Prefixed
        return Prefixed(number=Decimal(v["v"][0]), prefix=Prefix(v["v"][1]))
    raise ValueError(t)


def exact(v):
    t = v["t"]
    if t == "int":
        return Fraction(int(v["v"]))
    if t == "float":
        return Fraction(Decimal(repr(float.fromhex(v["v"]))))
    if t in ("dec", "str"):
        return Fraction(Decimal(v["v"]))
    if t == "pref":
        return Fraction(Decimal(v["v"][0])) * Fraction(10) ** v["v"][1]


def xf(v):
    return None if v is None else float(exact(v))


class Ctx:
    def __init__(self, tbspec):
        h, hs = H()
        self.h, self.hs = h, hs
        self.tbspec = tbspec
        self.tb = self.make_tb(tbspec)

    def make_tb(self, t):
        h = self.h
        m = h.Module(name=t["name"])
        kind = t["kind"]
        if kind in ("ok", "two", "bundle_extra"):
            m.add(h.Port(name="VSS"))
        if kind == "two":
            m.add(h.Port(name="VDD"))
        if kind == "bus":
            m.add(h.Port(name="VSS", width=2))
        if kind == "bundle_extra":
            m.add(h.Diff(port=True), name="io")
        m.add(h.Signal(name="a"))
        m.add(h.Signal(name="b"))
        m.add(h.Signal(name="c", width=1))
        self.sigs = {"a": m.a, "b": m.b, "c": m.c}
        r = m.add(h.R(r=1)(p=m.a, n=m.b), name="r1")
        m.add(h.C(c=1)(p=m.b, n=m.c), name="c1")
        self.insts = {"r1": r}
        if kind in ("ok", "two", "bundle_extra"):
            m.add(h.Vdc(dc=1)(p=m.c, n=m.VSS), name="v1")
            m.add(h.R(r=2)(p=m.a, n=m.VSS), name="r2")
        return m

    def sweep(self, s):
        hs = self.hs
        if s["k"] == "lin":
            return hs.LinearSweep(start=scal(s["start"]), stop=scal(s["stop"]), step=scal(s["step"]))
        if s["k"] == "log":
            return hs.LogSweep(start=scal(s["start"]), stop=scal(s["stop"]), npts=s["npts"])
        return hs.PointSweep(points=[scal(p) for p in s["points"]])

    def attr(self, a, name_override=None, params=None):
        hs, h = self.hs, self.h
        t = a["t"]
        nm = name_override if name_override is not None else a.get("name")
        kw = {} if nm is None else {"name": nm}
        if t == "op":
            return hs.Op(**kw)
        if t == "dc":
            var = a["var"]
            if isinstance(var, dict):
                var = params[var["param"]] if params and var["param"] in params else var["param"]
            return hs.Dc(var=var, sweep=self.sweep(a["sweep"]), **kw)
        if t == "ac":
            return hs.Ac(sweep=self.sweep(a["sweep"]), **kw)
        if t == "tran":
            return hs.Tran(tstop=scal(a["tstop"]), tstep=(None if a.get("tstep") is None else scal(a["tstep"])), **kw)
        if t == "noise":
            o = a["output"]
            out = self.sigs[o["sig"]] if "sig" in o else (self.sigs[o["pair"][0]], self.sigs[o["pair"][1]]) if "pair" in o else o["name"]
            src = self.insts[a["source"]["inst"]] if "inst" in a["source"] else a["source"]["name"]
            return hs.Noise(output=out, input_source=src, sweep=self.sweep(a["sweep"]), **kw)
        if t == "sweep":
            var = a["var"]
            if isinstance(var, dict):
                var = params[var["param"]] if params and var["param"] in params else var["param"]
            return hs.SweepAnalysis(inner=[self.attr(i, params=params) for i in a["inner"]], var=var, sweep=self.sweep(a["sweep"]), **kw)
        if t == "monte":
            return hs.MonteCarlo(inner=[self.attr(i, params=params) for i in a["inner"]], npts=a["npts"], **kw)
        if t == "custom":
            return hs.CustomAnalysis(cmd=a["cmd"], **kw)
        if t == "param":
            return hs.Param(val=scal(a["val"]), **kw)
        if t == "include":
            return hs.Include(path=a["path"], **kw)
        if t == "lib":
            return hs.Lib(path=a["path"], section=a["section"], **kw)
        if t == "meas":
            an = a["analysis"]
            if isinstance(an, dict):
                an = self.attr(an["obj"])
            return hs.Meas(analysis=an, expr=a["expr"], **kw)
        if t == "literal":
            return h.Literal(a["text"])
        if t == "save":
            g = a["targ"]
            if "mode" in g:
                targ = getattr(hs.SaveMode, g["mode"])
            elif "sig" in g:
                targ = self.sigs[g["sig"]]
            elif "sigs" in g:
                targ = [self.sigs[s] for s in g["sigs"]]
            elif "name" in g:
                targ = g["name"]
            else:
                targ = list(g["names"])
            return hs.Save(targ=targ)
        if t == "options":
            v = a["value"]
            val = v["b"] if "b" in v else h.Literal(v["lit"]) if "lit" in v else v["s"] if "s" in v else scal(v)
            return hs.Options(value=val, name=nm if nm is not None else a["oname"])
        raise ValueError(t)


# ---- reference encoder: case attr -> comparable tuple ----------------------------------


def exp_sweep(s):
    if s["k"] == "lin":
        return ("linear", xf(s["start"]), xf(s["stop"]), xf(s["step"]))
    if s["k"] == "log":
        return ("log", xf(s["start"]), xf(s["stop"]), float(s["npts"]))
    return ("points", tuple(xf(p) for p in s["points"]))


def exp_analysis(a, name):
    t = a["t"]
    varname = lambda v: v["param"] if isinstance(v, dict) else v
    if t == "op":
        return ("op", name)
    if t == "dc":
        return ("dc", name, varname(a["var"]), exp_sweep(a["sweep"]))
    if t == "ac":
        s = a["sweep"]
        return ("ac", name, xf(s["start"]), xf(s["stop"]), s["npts"])
    if t == "tran":
        return ("tran", name, xf(a["tstop"]), 0.0 if a.get("tstep") is None else xf(a["tstep"]))
    if t == "noise":
        o = a["output"]
        op, on = (o["sig"], "") if "sig" in o else (o["pair"][0], o["pair"][1]) if "pair" in o else (o["name"], "")
        src = a["source"].get("inst") or a["source"].get("name")
        s = a["sweep"]
        return ("noise", name, op, on, src, xf(s["start"]), xf(s["stop"]), s["npts"])
    if t == "sweep":
        return ("sweep", name, varname(a["var"]), exp_sweep(a["sweep"]), tuple(exp_analysis(i, i.get("name")) for i in a["inner"]))
    if t == "monte":
        return ("monte", name, a["npts"], tuple(exp_analysis(i, i.get("name")) for i in a["inner"]))
    if t == "custom":
        return ("custom", name, a["cmd"])


def read_sweep(s):
    w = s.WhichOneof("tp")
    if w == "linear":
        return ("linear", s.linear.start, s.linear.stop, s.linear.step)
    if w == "log":
        return ("log", s.log.start, s.log.stop, s.log.npts)
    return ("points", tuple(s.points.points))


def read_analysis(an):
    w = an.WhichOneof("an")
    x = getattr(an, w) if w else None
    if w == "op":
        return ("op", x.analysis_name)
    if w == "dc":
        return ("dc", x.analysis_name, x.indep_name, read_sweep(x.sweep))
    if w == "ac":
        return ("ac", x.analysis_name, x.fstart, x.fstop, x.npts)
    if w == "tran":
        return ("tran", x.analysis_name, x.tstop, x.tstep)
    if w == "noise":
        return ("noise", x.analysis_name, x.output_p, x.output_n, x.input_source, x.fstart, x.fstop, x.npts)
    if w == "sweep":
        return ("sweep", x.analysis_name, x.variable, read_sweep(x.sweep), tuple(read_analysis(i) for i in x.an))
    if w == "monte":
        return ("monte", x.analysis_name, x.npts, tuple(read_analysis(i) for i in x.an))
    if w == "custom":
        return ("custom", x.analysis_name, x.cmd)
    return ("unset",)


def names_in(t, acc):
    acc.append(t[1])
    for x in t:
        if isinstance(x, tuple) and x and isinstance(x[0], tuple):
            for i in x:
                names_in(i, acc)
    return acc


def match_analysis(want, got, path, out):
    """Compare allowing generated names where want's name is None."""
    if want[0] != got[0]:
        out.append(("analysis_kind", "%s: expected %s, exported %s" % (path, want[0], got[0])))
        return
    if want[1] is not None and want[1] != got[1]:
        out.append(("analysis_name", "%s: expected name %r, exported %r" % (path, want[1], got[1])))
    if want[1] is None and not got[1]:
        out.append(("analysis_unnamed", "%s: unnamed analysis exported without a name" % path))
    for k, (a, b) in enumerate(zip(want[2:], got[2:])):
        if isinstance(a, tuple) and a and isinstance(a[0], tuple):
            if len(a) != len(b):
                out.append(("inner_analyses_lost:" + want[0], "%s: %d inner analyses, %d exported" % (path, len(a), len(b))))
                continue
            for j, (x, y) in enumerate(zip(a, b)):
                match_analysis(x, y, "%s.inner[%d]" % (path, j), out)
        elif a != b:
            out.append(("analysis_field:%s" % want[0], "%s (%s): field #%d expected %r, exported %r" % (path, want[0], k + 2, a, b)))


def exp_ctrl(a, name):
    t = a["t"]
    # the Sim holds a pathlib.Path: its text is the path of the Sim (no further ".." / symlink resolution is a "same path")
    if t == "include":
        return ("include", str(pathlib.Path(a["path"])))
    if t == "lib":
        return ("lib", str(pathlib.Path(a["path"])), a["section"])
    if t == "literal":
        return ("literal", a["text"])
    if t == "param":
        return ("param", name, float(exact(a["val"])))
    if t == "meas":
        an = a["analysis"]
        tp = an if isinstance(an, str) else {"op": "op", "dc": "dc", "ac": "ac", "tran": "tran", "noise": "noise", "sweep": "sweep", "monte": "monte", "custom": "custom"}[an["obj"]["t"]]
        return ("meas", tp, name or "", a["expr"])
    if t == "save":
        g = a["targ"]
        if "mode" in g:
            return ("save_mode", g["mode"])
        if "sig" in g:
            return ("save_signal", g["sig"])
        if "sigs" in g:
            return ("save_signal", ",".join(g["sigs"]))
        if "name" in g:
            return ("save_signal", g["name"])
        return ("save_signal", ",".join(g["names"]))


def read_ctrl(c):
    from ..pkgread import param_value
    w = c.WhichOneof("ctrl")
    if w == "include":
        return ("include", c.include.path)
    if w == "lib":
        return ("lib", c.lib.path, c.lib.section)
    if w == "literal":
        return ("literal", c.literal)
    if w == "param":
        v = param_value(c.param.value)
        return ("param", c.param.name, float(v[1]) if v[0] == "num" else v)
    if w == "meas":
        return ("meas", c.meas.analysis_type, c.meas.name, c.meas.expr)
    if w == "save":
        s = c.save.WhichOneof("save")
        if s == "mode":
            import vlsir.spice_pb2 as vsp
            return ("save_mode", vsp.Save.SaveMode.Name(c.save.mode))
        return ("save_signal", c.save.signal)
    return ("unset",)


def exp_opt(a, name):
    from ..pkgread import param_value
    v = a["value"]
    if "b" in v:
        val = ("num", Fraction(int(v["b"])))
    elif "lit" in v:
        val = ("lit", v["lit"])
    elif "s" in v:
        val = ("lit", v["s"])
    else:
        val = ("num", exact(v))
    return (name if name is not None else a["oname"], val)


ANALYSES = ("op", "dc", "ac", "tran", "noise", "sweep", "monte", "custom")
CTRLS = ("include", "lib", "literal", "param", "meas", "save")


def check_siminput(case_sim, inp, tbname, style, out):
    attrs = case_sim["attrs"]
    names = case_sim["keys"] if style in ("class", "named") else [a.get("name") for a in attrs]
    mods = [m.name for m in inp.pkg.modules]
    if inp.top != tbname:
        out.append(("top_name", "top is %r, testbench is %r" % (inp.top, tbname)))
    if mods.count(inp.top) != 1:
        out.append(("top_not_once_in_package", "module %r appears %d times in the package %s" % (inp.top, mods.count(inp.top), mods)))
    want_an = [(a, n) for a, n in zip(attrs, names) if a["t"] in ANALYSES]
    want_ct = [(a, n) for a, n in zip(attrs, names) if a["t"] in CTRLS]
    want_op = [(a, n) for a, n in zip(attrs, names) if a["t"] == "options"]
    if len(inp.an) != len(want_an):
        out.append(("analysis_count", "%d analyses given, %d exported" % (len(want_an), len(inp.an))))
    else:
        got_names, want_names = [], []
        for k, ((a, n), g) in enumerate(zip(want_an, inp.an)):
            r = read_analysis(g)
            w = exp_analysis(a, n)
            match_analysis(w, r, "an[%d]" % k, out)
            names_in(r, got_names)
            names_in(w, want_names)
        if len(got_names) == len(want_names):
            generated = [g for g, w in zip(got_names, want_names) if w is None]
            user = [w for w in want_names if w is not None]
            if len(set(generated)) != len(generated) or set(generated) & set(user):
                out.append(("analysis_names_not_distinct", "names generated for unnamed analyses %s (user names %s)" % (generated, user)))
    if len(inp.ctrls) != len(want_ct):
        out.append(("control_count", "%d controls given, %d exported" % (len(want_ct), len(inp.ctrls))))
    else:
        for k, ((a, n), g) in enumerate(zip(want_ct, inp.ctrls)):
            w, r = exp_ctrl(a, n), read_ctrl(g)
            if w[0] == "save_signal" and r[0] == "save_signal" and ("sigs" in a["targ"] or "names" in a["targ"]):
                # a list of targets: any separator will do, the names must all be there, in order
                import re as _re
                names = a["targ"].get("sigs") or a["targ"].get("names")
                got_names = [x for x in _re.split(r"[,;\s]+", r[1]) if x]
                if got_names != list(names):
                    out.append(("control:save_list", "ctrls[%d]: save targets %r exported as %r" % (k, names, r[1])))
                continue
            if w != r:
                out.append(("control:%s" % w[0], "ctrls[%d]: expected %r, exported %r" % (k, w, r)))
    if len(inp.opts) != len(want_op):
        out.append(("option_count", "%d options given, %d exported" % (len(want_op), len(inp.opts))))
    else:
        from ..pkgread import param_value
        for k, ((a, n), g) in enumerate(zip(want_op, inp.opts)):
            w = exp_opt(a, n)
            r = (g.name, param_value(g.value))
            if w != r:
                out.append(("option", "opts[%d]: expected %r, exported %r" % (k, w, r)))


def build_sim(ctx, case_sim, style):
    hs = ctx.hs
    attrs, keys = case_sim["attrs"], case_sim["keys"]
    share = {j: i for i, j in case_sim.get("share", [])}  # attribute j is the very object that is attribute i

    def objects():
        objs = []
        for k, a in enumerate(attrs):
            objs.append(objs[share[k]] if k in share else ctx.attr(a))
        return objs
    if style == "list":
        return hs.Sim(tb=ctx.tb, attrs=objects())
    if style == "named":
        return hs.Sim(tb=ctx.tb, attrs=[ctx.attr(a, name_override=(k if a["t"] not in ("save", "literal") else None)) for a, k in zip(attrs, keys)])
    if style == "methods":
        s = hs.Sim(tb=ctx.tb)
        grow = case_sim.get("grow", 0) if ctx.tbspec.get("kind") == "ok" else 0
        for k, o in enumerate(objects()):
            if grow and k == len(attrs) - grow:
                hs.to_proto(s)  # history: the Sim was exported once before its last `grow` attributes were added
            s.add(o)
        return s
    if style == "class":
        body = {"tb": ctx.tb}
        for a, k in zip(attrs, keys):
            body[k] = ctx.attr(a)
        return hs.sim(type("MySim", (), body))
    raise ValueError(style)


def run_case(case):
    h, hs = H()
    from hdl21.instantiable import qualname
    out, notes = [], []
    sims = case["sims"]
    # every Sim is built from scratch for each style (objects are not shared between styles)
    results = {}
    for style in case["styles"]:
        ctxs = {}
        built = []
        for s in sims:
            key = s["tb"]["name"]
            if key not in ctxs:
                ctxs[key] = Ctx(s["tb"])
            try:
                built.append(build_sim(ctxs[key], s, style))
            except Exception as e:
                if s["tb"]["kind"] != "ok" and style == "class":
                    built.append(None)  # @sim checks the testbench itself
                    continue
                out.append(("construction_raises:%s:%s" % (style, type(e).__name__), "building the Sim (%s style) raised %s: %s" % (style, type(e).__name__, str(e)[-300:])))
                return out, notes
        valid = all(s["tb"]["kind"] == "ok" for s in sims)
        if any(b is None for b in built):
            continue
        try:
            arg = built if (len(built) > 1 or case.get("as_list")) else built[0]
            res = hs.to_proto(arg)
            res = res if isinstance(res, list) else [res]
        except Exception as e:
            if valid:
                out.append(("export_raises:%s:%s" % (style, type(e).__name__), "exporting (%s style) raised %s: %s" % (style, type(e).__name__, str(e)[-300:])))
            continue
        if not valid:
            bad = [s["tb"]["kind"] for s in sims if s["tb"]["kind"] != "ok"]
            out.append(("invalid_testbench_accepted:%s" % bad[0], "a Sim whose testbench is %s was exported" % bad))
            continue
        if len(res) != len(sims):
            out.append(("siminput_count", "%d Sims given, %d SimInputs returned" % (len(sims), len(res))))
            continue
        for s, inp in zip(sims, res):
            check_siminput(s, inp, qualname(ctxs[s["tb"]["name"]].tb), style, out)
        results[style] = [inp.SerializeToString(deterministic=True) for inp in res]
    if "class" in results and "named" in results and results["class"] != results["named"]:
        out.append(("styles_differ", "class-style and constructor-style Sims with the same attribute names export different SimInputs"))
    if "list" in results and "methods" in results and results["list"] != results["methods"]:
        out.append(("styles_differ", "constructor-list and add-method Sims export different SimInputs"))
    return out, notes


def batch_run(cases):
    res = core.Result()
    for c in cases:
        try:
            fails, notes = run_case(c)
        except Exception:
            import traceback
            res.harness_error("crash on %s: %s" % (json.dumps(c)[:400], traceback.format_exc()[-1500:]))
            continue
        for sig, detail in fails:
            res.fail(sig, c, detail)
        feats = set()
        nt = False
        for s in c["sims"]:
            feats.add("tb_" + s["tb"]["kind"])
            if s.get("grow"):
                feats.add("exported_before_last_attributes_added")
            for a in s["attrs"]:
                feats.add("attr_" + a["t"])
                if a["t"] in ("sweep", "monte"):
                    nt = True
                    feats.add("nested")
                if a["t"] == "save" and "mode" not in a["targ"]:
                    nt = True
                    feats.add("save_" + [k for k in a["targ"]][0])
                if '"pref"' in json.dumps(a) :
                    nt = True
                    feats.add("prefixed_value")
        feats.add("nsims_%d" % len(c["sims"]))
        res.case(c, nt, sorted(feats))
    return res


def strategies():
    from hypothesis import strategies as st
    ints = st.integers(-1000, 1000).map(lambda i: {"t": "int", "v": str(i)})
    floats = st.one_of(st.sampled_from([1e-9, 0.1, 1e3, 2.5e-12, 3.3]), st.floats(min_value=-1e12, max_value=1e12, allow_nan=False)).map(lambda x: {"t": "float", "v": float(x).hex()})
    decs = st.tuples(st.integers(-9999, 9999), st.integers(-12, 6)).map(lambda t: {"t": "dec", "v": str(Decimal(t[0]).scaleb(t[1]))})
    strs = st.tuples(st.integers(-999, 999), st.integers(-9, 9)).map(lambda t: {"t": "str", "v": "%de%d" % t})
    prefs = st.tuples(st.one_of(st.integers(-999, 999).map(str), st.sampled_from(["1.1", "0.7", "0.1", "4.1", "3", "2.50", "11"])), st.sampled_from(PREFIX_EXPS)).map(lambda t: {"t": "pref", "v": [t[0], t[1]]})
    import math
    from decimal import localcontext

    def midpoint(t):
        """A long decimal just beside the midpoint of two adjacent doubles, written with prefix exponent pe: only the exact
        value decides which double is nearest (any intermediate rounding to fewer digits lands on the midpoint itself)."""
        x, k, up, pe = t
        y = math.nextafter(x, math.inf)
        with localcontext() as ctx:
            ctx.prec = 400
            mid = (Decimal(x) + Decimal(y)) / 2
            val = mid + (1 if up else -1) * abs(mid).scaleb(-k)
            return {"t": "pref", "v": [str(val.scaleb(-pe)), pe]}
    mids = st.tuples(st.floats(min_value=1e-15, max_value=1e12, allow_nan=False, allow_infinity=False), st.integers(29, 45), st.booleans(),
                     st.sampled_from(PREFIX_EXPS)).map(midpoint)
    longs = st.tuples(st.integers(1, 40).flatmap(lambda n: st.integers(10 ** (n - 1), 10 ** n - 1)), st.integers(-45, 5), st.sampled_from(PREFIX_EXPS)).map(
        lambda t: {"t": "pref", "v": [str(Decimal(t[0]).scaleb(t[1])), t[2]]})
    scalar = st.one_of(ints, floats, decs, strs, prefs, prefs, mids, longs)
    uname = st.one_of(st.none(), st.sampled_from(["mytran", "an_x", "foo", "bar", "baz", "qux", "first", "second"]))
    sweep = st.one_of(
        st.fixed_dictionaries({"k": st.just("lin"), "start": scalar, "stop": scalar, "step": scalar}),
        st.fixed_dictionaries({"k": st.just("log"), "start": scalar, "stop": scalar, "npts": st.integers(1, 100)}),
        st.fixed_dictionaries({"k": st.just("points"), "points": st.lists(scalar, min_size=1, max_size=4)}))
    logsweep = st.fixed_dictionaries({"k": st.just("log"), "start": scalar, "stop": scalar, "npts": st.integers(1, 100)})
    var = st.one_of(st.sampled_from(["x", "y", "temp"]), st.just({"param": "px"}))
    sig = st.sampled_from(["a", "b", "c"])

    def analysis(depth):
        leaf = st.one_of(
            st.fixed_dictionaries({"t": st.just("op"), "name": uname}),
            st.fixed_dictionaries({"t": st.just("dc"), "name": uname, "var": var, "sweep": sweep}),
            st.fixed_dictionaries({"t": st.just("ac"), "name": uname, "sweep": logsweep}),
            st.fixed_dictionaries({"t": st.just("tran"), "name": uname, "tstop": scalar, "tstep": st.one_of(st.none(), scalar)}),
            st.fixed_dictionaries({"t": st.just("noise"), "name": uname, "sweep": logsweep,
                                   "output": st.one_of(sig.map(lambda s: {"sig": s}), st.tuples(sig, sig).map(lambda t: {"pair": list(t)}), st.just({"name": "xtop.out"})),
                                   "source": st.one_of(st.just({"inst": "r1"}), st.just({"name": "v1"}))}),
            st.fixed_dictionaries({"t": st.just("custom"), "name": uname, "cmd": st.sampled_from([".pss foo", "custom 1 2", ""])}))
        if depth >= 3:
            return leaf
        inner = st.lists(st.deferred(lambda: analysis(depth + 1)), min_size=1, max_size=3)
        return st.one_of(leaf, leaf, st.fixed_dictionaries({"t": st.just("sweep"), "name": uname, "var": var, "sweep": sweep, "inner": inner}),
                         st.fixed_dictionaries({"t": st.just("monte"), "name": uname, "npts": st.integers(1, 50), "inner": inner}))

    seg = st.sampled_from(["models", "pdk", "v2", "..", "..", ".", "y z", "a.b", "corners.lib", "all.sp", "~", "C:"])
    paths = st.one_of(st.sampled_from(["/home/models", "a.sp", "/x/y z.lib", "c.lib"]),
                      st.tuples(st.sampled_from(["", "/", "./", "../", "//"]), st.lists(seg, min_size=1, max_size=5), st.sampled_from(["", "", "/"])).map(
                          lambda t: t[0] + "/".join(t[1]) + t[2]))
    ctrl = st.one_of(
        st.fixed_dictionaries({"t": st.just("param"), "name": st.sampled_from(["px", "py", "pz"]), "val": scalar}),
        st.fixed_dictionaries({"t": st.just("include"), "path": paths}),
        st.fixed_dictionaries({"t": st.just("lib"), "path": paths, "section": st.sampled_from(["fast", "tt", "", "TT", "tt_025C ", " ss", "f s"])}),
        st.fixed_dictionaries({"t": st.just("literal"), "text": st.one_of(st.sampled_from([".temp 25", "* hello", "simulator lang=spice", "  .ic v(a)=1 ", "\t* tab", "two\nlines\n", ""]), st.text(max_size=8))}),
        st.fixed_dictionaries({"t": st.just("meas"), "name": st.sampled_from(["m1", "delay", "gain"]), "expr": st.one_of(st.sampled_from(["trig_targ", "max(v(a))", "", " max(v(a)) ", "when v(a)=0.5 ", "\tx", "A*B"]), st.text(max_size=8)),
                               "analysis": st.one_of(st.sampled_from(["tran", "ac", "dc", "TRAN", "Ac", "my_an", " tran", ""]), st.fixed_dictionaries({"obj": st.fixed_dictionaries({"t": st.just("tran"), "name": st.just("mt"), "tstop": scalar, "tstep": st.none()})}))}),
        st.fixed_dictionaries({"t": st.just("save"), "targ": st.one_of(
            st.sampled_from(["ALL", "NONE"]).map(lambda m: {"mode": m}), sig.map(lambda s: {"sig": s}),
            st.lists(sig, min_size=1, max_size=3).map(lambda l: {"sigs": l}), st.sampled_from(["a", "xtop.b", "i(v1)"]).map(lambda s: {"name": s}),
            st.lists(st.sampled_from(["a", "b", "xtop.c"]), min_size=1, max_size=3).map(lambda l: {"names": l}))}))
    option = st.fixed_dictionaries({"t": st.just("options"), "oname": st.sampled_from(["reltol", "gmin", "method", "temp"]),
                                    "value": st.one_of(st.booleans().map(lambda b: {"b": b}), scalar.filter(lambda v: v["t"] != "str"),
                                                       st.sampled_from(["gear", "trap"]).map(lambda s: {"s": s}), st.sampled_from(["1e-3*x", "lit"]).map(lambda s: {"lit": s}))})
    attr = st.one_of(analysis(1), analysis(1), ctrl, ctrl, option)

    @st.composite
    def sim_desc(draw, tbname, tbkind):
        attrs = draw(st.lists(attr, min_size=0, max_size=8))
        # class-body keys become the names; a key may carry leading underscores (only the bare "_" is special)
        lead = draw(st.lists(st.sampled_from(["", "", "", "_", "__"]), min_size=len(attrs), max_size=len(attrs)))
        keys = ["%sk%d_%s" % (u, i, a["t"]) for i, (a, u) in enumerate(zip(attrs, lead))]
        d_ = {"tb": {"name": tbname, "kind": tbkind}, "attrs": attrs, "keys": keys}
        ans = [i for i, a in enumerate(attrs) if a["t"] in ANALYSES]
        if ans and len(attrs) < 8 and draw(st.integers(0, 4)) == 0:
            # one analysis object is listed twice (styles that take objects: list, add-methods): two entries, alike
            i = draw(st.sampled_from(ans))
            attrs.append(json.loads(json.dumps(attrs[i])))
            keys.append("k%d_%s" % (len(attrs) - 1, attrs[i]["t"]))
            d_["share"] = [[i, len(attrs) - 1]]
        if len(attrs) >= 2 and draw(st.integers(0, 3)) == 0:
            d_["grow"] = draw(st.integers(1, len(attrs) - 1))  # add-method style: exported once before the last `grow` attributes are added
        return d_

    @st.composite
    def cases(draw):
        n = draw(st.sampled_from([1, 1, 1, 2, 3]))
        shared = draw(st.booleans())
        sims = []
        for k in range(n):
            kind = "ok" if draw(st.integers(0, 9)) < 8 else draw(st.sampled_from(["none", "two", "bus", "bundle_extra"]))
            name = "Tb0" if (shared and kind == "ok") else "Tb%d" % k if kind == "ok" else "BadTb%d" % k
            if shared and kind == "ok" and any(s["tb"]["name"] == "Tb0" and s["tb"]["kind"] != "ok" for s in sims):
                name = "Tb%d" % k
            sims.append(draw(sim_desc(name, kind)))
        styles = draw(st.sampled_from([["list", "methods"], ["class", "named"], ["list", "methods", "class", "named"]]))
        if any(s_.get("share") for s_ in sims):
            styles = ["list", "methods"]
        return {"sims": sims, "styles": styles, "as_list": draw(st.booleans())}

    return cases()


def shard(idx, n, tier):
    H()
    par.server()
    import hypothesis
    from hypothesis import given, settings, HealthCheck, Phase
    res = core.Result()
    nex = (48000 if tier == "thorough" else 3200) // n
    batch = []

    def flush():
        if batch:
            r = par.pristine(batch_run, list(batch), timeout=900)
            if par.is_exc(r):
                res.harness_error("batch crashed: %s %s" % (r[1], r[3][-800:]))
            else:
                res.merge(r)
            batch.clear()

    @hypothesis.seed(env.subseed(PID, idx))
    @settings(max_examples=nex, database=None, deadline=None, derandomize=False,
              suppress_health_check=list(HealthCheck), phases=[Phase.generate], report_multiple_bugs=False)
    @given(strategies())
    def run(case):
        batch.append(case)
        if len(batch) >= 50:
            flush()

    run()
    flush()
    return res


def replay(case):
    r = par.in_child(run_case, case)
    if par.is_exc(r):
        raise RuntimeError(r[2])
    return [tuple(f) for f in r[0]]


def main(tier):
    t0 = time.time()
    H()
    res = par.run_shards(shard, extra=(tier,))
    return core.finish(PID, LEVEL, tier, res, RULE, ASSUME, replay, t0, min_nontrivial=100)
