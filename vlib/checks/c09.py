"""C09 - Generator calls are memoised and their modules uniquely named.

Hypothesis builds param-class shapes and pairs of value assignments biased toward near-collisions;
each case declares fresh param-classes / generators in a pristine child and checks memoisation,
name injectivity, export of both results, name stability and process independence."""
import json, time
from decimal import Decimal
from fractions import Fraction
from .. import env, core, par

PID = "C09"
LEVEL = "exploration"
RULE = ("Hypothesis-generated param-class shapes (1-4 fields over int, float, str, bool, Optional[int|float|str], str Enum, nested "
        "param-class, Scalar, Prefixed, Instantiable (Module / ExternalModuleCall / PrimitiveCall valued), Generator, frozenset and tuple of small ints and digit strings) and PAIRS of "
        "value assignments biased toward near-collisions (strings with spaces, '=' and quotes, 'None' vs None, readable names of "
        "126..130 characters, 1 vs 1.0 vs 1e0, 1000*m vs 1*UNIT, 0.1+0.2 vs 0.3, equal nested instances built separately, and one-field 'nearest neighbour' variants: next float / 1e-13 relative, int +-1, a string with one more space or quote, a prefixed number differing in a far digit, the most alike other module), call forms "
        "(keywords / instance), call orders and patterns (direct, returned through a second generator, recursive, called inside "
        "another generator), 1 case in 6 with a first call aborted inside the body by an Exception / KeyboardInterrupt / SystemExit / other BaseException. Oracle with a body call counter: equal params => identical Module and one body run; unequal params => "
        "distinct Modules with distinct names; a parent instantiating both exports with one / two module names; names do not change "
        "after first return; the names are identical in four pristine processes (plain, after 50 unrelated generator calls, after "
        "allocating 1e5 objects, after a sibling generator over the same param-class was called with the same values in the other order). Non-trivial = pair whose readable renderings are equal or whose values are equal but written "
        "differently, or any pass-through / recursive pattern; distinct by canonical case text.")
ASSUME = ["parameter equality is Python equality of the validated param-class instances, cross-checked with exact values (Fraction for "
          "prefixed numbers); pairs on which the two notions disagree (values inside Hdl21's 1e-20 tolerance) are recorded, not asserted",
          "Module-valued parameters are drawn from a pool holding distinctly named modules, modules of one name imported from two "
          "libraries, calls of external modules of one name in two domains and primitive calls; Generator-valued ones from distinctly named generators"]

PREFIX_EXPS = [-24, -21, -18, -15, -12, -9, -6, -3, -2, -1, 0, 1, 2, 3, 6, 9, 12, 15, 18, 21, 24]


def setup():
    env.setup_paths()
    import hdl21 as h
    return h


class World:
    """Everything a case needs, built fresh in the child."""

    def __init__(self, case):
        import typing, enum
        h = setup()
        self.h = h
        self.case = case
        self.counts = {}

        class Color(enum.Enum):
            RED = "red"
            GREEN = "green grass"
            BLUE = "b=1"
        self.Color = Color

        NP = h.paramclass(type("NP", (), {"x": h.Param(dtype=int, desc="x", default=0), "s": h.Param(dtype=str, desc="s", default="")}))
        self.NP = NP
        X = h.ExternalModule(name="PX", port_list=[], paramtype=NP, domain="verif")
        m0 = h.Module(name="PoolA"); m1 = h.Module(name="PoolB")
        # same-named objects that are nevertheless different designs: modules of one name imported from two libraries, and
        # external modules of one name in two domains
        import vlsir.circuit_pb2 as vckt
        libs = vckt.Package(domain="verif_libs")
        for nm in ("liba.Unit", "libb.Unit"):
            libs.modules.add().name = nm
        ns = h.from_proto(libs)
        X2 = h.ExternalModule(name="PX", port_list=[], paramtype=NP, domain="verif_other")
        SP = h.paramclass(type("SP", (), {"a": h.Param(dtype=h.Scalar, desc="a", default=0)}))
        X3 = h.ExternalModule(name="PXS", port_list=[], paramtype=SP, domain="verif")
        from hdl21.prefix import Prefix, Prefixed
        # ... and calls of one external module with ONE value written three ways: equal calls, so equal parameters
        self.pool_mod = [m0, m1, X(NP(x=1)), X(NP(x=2)), h.R(r=1), h.R(r=2), ns.liba.Unit, ns.libb.Unit, X2(NP(x=1)),
                         X3(SP(a=1)), X3(SP(a=Prefixed(number=Decimal("1000"), prefix=Prefix(-3)))), X3(SP(a="1.0"))]
        # (12, 13): generated modules - results of same-named generators defined in two python modules, called with equal parameters
        from .. import genlib_a, genlib_b
        self.pool_mod += [genlib_a.Unit(w=1), genlib_b.Unit(w=1)]
        g0 = h.generator(self._mk_simple("PoolG0")); g1 = h.generator(self._mk_simple("PoolG1"))
        self.pool_gen = [g0, g1]
        dt = {"int": int, "float": float, "str": str, "bool": bool, "oint": typing.Optional[int], "ofloat": typing.Optional[float],
              "ostr": typing.Optional[str], "enum": Color, "nested": NP, "scalar": h.Scalar, "prefixed": h.Prefixed,
              "module": h.Instantiable, "gen": h.Generator, "set": frozenset, "tuple": tuple}
        attrs = {name: h.Param(dtype=dt[code], desc=name) for name, code in case["fields"]}
        self.P = h.paramclass(type("P", (), attrs))
        self.codes = dict(case["fields"])

    def _mk_simple(self, name):
        h = self.h

        def f(params: h.HasNoParams) -> h.Module:
            return h.Module()
        f.__name__ = name
        return f

    def dec(self, code, v):
        h = self.h
        t = v["t"]
        if t == "none":
            return None
        if t == "int":
            return int(v["v"])
        if t == "float":
            return float.fromhex(v["v"])
        if t == "str":
            return v["v"]
        if t == "bool":
            return bool(v["v"])
        if t == "dec":
            return Decimal(v["v"])
        if t == "pref":
            from hdl21.prefix import Prefix, Prefixed
            return Prefixed(number=Decimal(v["v"][0]), prefix=Prefix(v["v"][1]))
        if t == "lit":
            return h.Literal(v["v"])
        if t == "enum":
            return self.Color[v["v"]]
        if t == "nested":
            return self.NP(x=v["v"]["x"], s=v["v"]["s"])
        if t == "module":
            return self.pool_mod[v["v"]]
        if t == "gen":
            return self.pool_gen[v["v"]]
        if t == "set":
            return frozenset(self.dec(None, m) for m in v["v"])
        if t == "tuple":
            return tuple(self.dec(None, m) for m in v["v"])
        raise ValueError(t)

    def values(self, vals):
        return {k: self.dec(self.codes[k], v) for k, v in vals.items()}

    def make_generators(self):
        h = self.h
        P = self.P
        counts = self.counts

        world = self
        self.fail_next = None

        def body(params: P) -> h.Module:
            if world.fail_next is not None:
                exc, world.fail_next = world.fail_next, None
                raise exc
            counts["G"] = counts.get("G", 0) + 1
            m = h.Module()
            m.add(h.Signal(name="s"))
            return m
        body.__name__ = "G"
        self.G = h.generator(body)
        G = self.G

        def through(params: P) -> h.Module:
            counts["H"] = counts.get("H", 0) + 1
            return G(params)
        through.__name__ = "H"
        self.H = h.generator(through)

        def sibling(params: P) -> h.Module:
            m = h.Module()
            m.add(h.Signal(name="t"))
            return m
        sibling.__name__ = "Sib"
        self.S = h.generator(sibling)  # another generator over the same param-class

        def uncached(params: P) -> h.Module:
            counts["U"] = counts.get("U", 0) + 1
            return G(params)
        uncached.__name__ = "U"
        self.U = h.generator(enable_cache=False)(uncached)  # hands G's memoised module on, every time it is called

        def outer(params: P) -> h.Module:
            counts["O"] = counts.get("O", 0) + 1
            m = h.Module()
            m.add(G(params)(), name="inner")
            return m
        outer.__name__ = "Outer"
        self.O = h.generator(outer)


def exact(code, val):
    """Canonical exact form of a validated field value."""
    import enum
    if val is None:
        return ("none",)
    tn = type(val).__name__
    if tn == "Prefixed":
        return ("num", Fraction(val.number) * Fraction(10) ** val.prefix.value)
    if tn == "Literal":
        return ("lit", val.text)
    if isinstance(val, bool):
        return ("num", Fraction(int(val)))
    if isinstance(val, int):
        return ("num", Fraction(val))
    if isinstance(val, float):
        return ("num", Fraction(val)) if val == val and abs(val) != float("inf") else ("float", repr(val))
    if isinstance(val, str):
        return ("str", val)
    if isinstance(val, enum.Enum):
        return ("enum", val.name)
    if tn == "ExternalModuleCall":
        return ("extcall", id(val.module), exact(None, val.params))
    if hasattr(val, "__params__"):
        import dataclasses
        return ("pc", tuple((f.name, exact(None, getattr(val, f.name))) for f in dataclasses.fields(val)))
    return ("obj", id(val))


def run_recursive(case, history):
    """Recursion pattern: G(n, s) instantiates G(n-1, s)."""
    h = setup()
    out = {"fails": [], "notes": []}
    if history == "calls":
        for k in range(50):
            def f(params: h.HasNoParams) -> h.Module:
                return h.Module()
            f.__name__ = "Noise%d" % k
            h.generator(f)()
    elif history == "alloc":
        junk = [{"k": i} for i in range(100000)]
    RP = h.paramclass(type("RP", (), {"n": h.Param(dtype=int, desc="depth"), "s": h.Param(dtype=str, desc="tag", default="")}))
    counts = {}

    def body(params: RP) -> h.Module:
        key = (params.n, params.s)
        counts[key] = counts.get(key, 0) + 1
        m = h.Module()
        m.add(h.Signal(name="x"))
        if params.n > 0:
            m.add(RG(n=params.n - 1, s=params.s)(), name="sub")
        return m
    body.__name__ = "RG"
    RG = h.generator(body)
    n1, n2, s1, s2 = case["n1"], case["n2"], case["s1"], case["s2"]
    try:
        m1 = RG(n=n1, s=s1)
        m2 = RG(RP(n=n2, s=s2))
        m1b = RG(n=n1, s=s1)
    except Exception as e:
        out["fails"].append(("generator_call_raises:%s" % type(e).__name__, "recursive generator raised %s: %s" % (type(e).__name__, str(e)[-200:])))
        return out
    out["names"] = [m1.name, m2.name]
    equal = (n1, s1) == (n2, s2)
    if m1b is not m1:
        out["fails"].append(("not_memoised_same_call", "recursive generator called twice with equal parameters returned two Modules"))
    if equal and m1 is not m2:
        out["fails"].append(("not_memoised:recursive", "equal parameters gave two Modules"))
    if not equal and (m1 is m2 or m1.name == m2.name):
        out["fails"].append(("name_collision:recursive", "unequal parameters (%r,%r)/(%r,%r) gave one module or one name %r" % (n1, s1, n2, s2, m1.name)))
    over = {k: v for k, v in counts.items() if v != 1}
    if over:
        out["fails"].append(("body_ran_more_than_once:recursive", "generator body ran more than once for %s" % over))
    want = set([(k, s1) for k in range(n1 + 1)] + [(k, s2) for k in range(n2 + 1)])
    if set(counts) != want:
        out["fails"].append(("recursion_calls", "bodies run for %s, expected %s" % (sorted(counts), sorted(want))))
    top = h.Module(name="Top")
    top.add(m1(), name="a")
    top.add(m2(), name="b")
    try:
        pkg = h.to_proto(top)
        names = [pm.name for pm in pkg.modules if not pm.name.endswith(".Top")]
        if len(set(names)) != len(names) or len(names) != len(want):
            out["fails"].append(("export_module_count:recursive", "exported %s, expected %d distinct generated modules" % (names, len(want))))
    except Exception as e:
        out["fails"].append(("export_raises:%s:recursive" % type(e).__name__, str(e)[-300:]))
    out["equal"] = equal
    out["rendered_equal"] = False
    return out


def run_case(case, history="plain"):
    """Runs in a pristine child."""
    if case.get("pattern") == "recursive":
        return run_recursive(case, history)
    import dataclasses
    w = World(case)
    h = w.h
    out = {"fails": [], "notes": []}
    if history == "calls":
        for k in range(50):
            def f(params: h.HasNoParams) -> h.Module:
                return h.Module()
            f.__name__ = "Noise%d" % k
            h.generator(f)()
    elif history == "alloc":
        w._junk = [{"k": i} for i in range(100000)]
    w.make_generators()
    try:
        v1, v2 = w.values(case["vals1"]), w.values(case["vals2"])
        p1, p2 = w.P(**v1), w.P(**v2)
    except Exception as e:
        out["notes"].append("param_construction_rejected:" + type(e).__name__)
        out["rejected"] = True
        return out
    if history == "sibling":
        # unrelated earlier work of a particular kind: another generator was called with the same parameter values,
        # the second set first
        try:
            w.S(p2); w.S(p1)
        except Exception:
            pass
    ex1 = tuple((f.name, exact(w.codes[f.name], getattr(p1, f.name))) for f in dataclasses.fields(p1))
    ex2 = tuple((f.name, exact(w.codes[f.name], getattr(p2, f.name))) for f in dataclasses.fields(p2))
    try:
        py_eq = (p1 == p2)
    except Exception as e:
        out["fails"].append(("params_eq_raises:%s" % type(e).__name__, "comparing the two parameter sets raised %r" % e))
        return out
    if py_eq != (ex1 == ex2):
        out["notes"].append("equality_ambiguous")
        out["rejected"] = True
        return out
    equal = py_eq
    pattern = case.get("pattern", "direct")
    gens = {"direct": (w.G, w.G), "passthrough": (w.H, w.G), "passthrough2": (w.G, w.H), "nested": (w.O, w.O), "both_through": (w.H, w.H),
            "uncached_through": (w.U, w.G), "uncached_both": (w.U, w.U)}[pattern]

    def call(gen, vals, p, form):
        if form == "kw":
            return gen(**vals)
        return gen(p)

    if case.get("interrupt"):
        # history: the very first call is aborted inside the body - by an ordinary exception or by a BaseException the caller
        # survives (KeyboardInterrupt at a prompt, SystemExit caught by a runner) - and leaves nothing behind
        class Stop(BaseException):
            pass
        w.fail_next = {"Exception": ValueError("body failed"), "KeyboardInterrupt": KeyboardInterrupt(), "SystemExit": SystemExit(3),
                       "custom_base": Stop()}[case["interrupt"]]
        try:
            if case.get("interrupt_where") == "nested":
                # ... the aborted call sits inside another generator's body, which catches the error and completes
                def tolerant(params: w.P) -> h.Module:
                    m = h.Module()
                    try:
                        m.add(call(gens[0], v1, p1, case.get("form1", "kw"))(), name="inner")
                    except BaseException:  # noqa
                        m.add(h.Signal(name="fallback"))
                    return m
                tolerant.__name__ = "Tolerant"
                h.generator(tolerant)(p1)
            else:
                call(gens[0], v1, p1, case.get("form1", "kw"))
                out["notes"].append("interrupted_call_returned")
        except BaseException:  # noqa
            pass
        w.fail_next = None
        w.counts.clear()
    try:
        # a result nobody holds on to is still memoised: drop it, collect garbage, call again
        import gc
        m0 = call(gens[0], v1, p1, case.get("form1", "kw"))
        name0 = m0.name
        del m0
        gc.collect()
        m1 = call(gens[0], v1, p1, case.get("form1", "kw"))
        name1 = m1.name
        if name1 != name0:
            out["fails"].append(("name_changed_on_recall", "%r on the first call, %r after dropping the result and calling again" % (name0, name1)))
        if w.counts.get("G", 0) != 1:
            out["fails"].append(("body_reran_after_gc", "generator body ran %d times: the memoised result was lost once nobody referenced it" % w.counts.get("G", 0)))
        m2 = call(gens[1], v2, p2, case.get("form2", "inst"))
        name2 = m2.name
        m1b = call(gens[0], v1, p1, case.get("form2", "inst"))
    except Exception as e:
        import traceback
        tb = traceback.extract_tb(e.__traceback__)
        inside = [fr for fr in tb if "/hdl21/" in fr.filename]
        out["fails"].append(("generator_call_raises:%s" % type(e).__name__,
                             "calling the generator raised %s: %s (at %s)" % (type(e).__name__, str(e)[-200:], inside[-1].name if inside else "?")))
        return out
    out["names"] = [name1, name2]
    if m1b is not m1:
        out["fails"].append(("not_memoised_same_call", "calling %s twice with the same parameters (by keywords, then by instance) returned two Modules" % gens[0].name))
    same_expected = equal and (pattern in ("direct", "nested", "both_through") or True)
    # in the pass-through patterns H(p) returns G(p)'s module: with equal params all calls must give that one module
    if equal:
        if m1 is not m2:
            out["fails"].append(("not_memoised:%s" % pattern, "equal parameters %s gave two distinct Modules (%r, %r)" % (case["vals1"], name1, name2)))
        if w.counts.get("G", 0) != 1:
            out["fails"].append(("body_ran_%d_times:%s" % (w.counts.get("G", 0), pattern), "generator body ran %d times for equal parameters" % w.counts.get("G", 0)))
    else:
        if m1 is m2:
            out["fails"].append(("same_module_for_unequal:%s" % pattern, "unequal parameters %s / %s returned one Module" % (case["vals1"], case["vals2"])))
        elif name1 == name2:
            out["fails"].append(("name_collision:%s" % pattern, "unequal parameters %s / %s gave two Modules both named %r" % (case["vals1"], case["vals2"], name1)))
    if m1.name != name1:
        out["fails"].append(("renamed_in_place:%s" % pattern, "module first returned as %r is now named %r" % (name1, m1.name)))
    # export a parent instantiating both
    top = h.Module(name="Top")
    top.add(m1(), name="a")
    top.add(m2(), name="b")
    try:
        pkg = h.to_proto(top)
        names = [pm.name for pm in pkg.modules if not pm.name.endswith(".Top")]
        inner = {"direct": 0, "passthrough": 0, "passthrough2": 0, "both_through": 0, "nested": 1, "uncached_through": 0, "uncached_both": 0}[pattern]
        want = (1 if m1 is m2 else 2) * (1 + inner) if not (pattern == "nested" and not equal) else 4
        if pattern == "nested":
            want = 2 if equal else 4
        if len(set(names)) != len(names):
            out["fails"].append(("export_duplicate_names", "exported module names %s" % names))
        elif len(names) != want:
            out["fails"].append(("export_module_count:%s" % pattern, "exported modules %s, expected %d" % (names, want)))
    except Exception as e:
        out["fails"].append(("export_raises:%s:%s" % (type(e).__name__, "equal" if equal else "unequal"),
                             "to_proto of a parent instantiating both results raised: %s" % str(e)[-300:]))
    if m1.name != name1:
        out["fails"].append(("renamed_in_place_after_export", "module first returned as %r is now named %r" % (name1, m1.name)))
    if pattern in ("direct", "uncached_both"):
        # a generator that opted out of memoisation returns a new module per call; the two results of equal calls share a name.
        # One of them is edited: a parent of both either is refused or holds both definitions - never one definition for the two
        def own(params: w.P) -> h.Module:
            m = h.Module()
            m.add(h.Signal(name="x"))
            return m
        own.__name__ = "OwnBody"
        V = h.generator(enable_cache=False)(own)
        if True:
            try:
                va, vb = V(p1), V(p1)
                if va is not vb:
                    vb.add(h.Signal(name="extra"))
                    top2 = h.Module(name="Top2")
                    top2.add(va(), name="a")
                    top2.add(vb(), name="b")
                    try:
                        pkg2 = h.to_proto(top2)
                        t2 = [pm for pm in pkg2.modules if pm.name.endswith("Top2")][0]
                        refs = [i.module.local for i in t2.instances]
                        defs = {pm.name: sorted(sg.name for sg in pm.signals) for pm in pkg2.modules}
                        if len(set(refs)) != 2 or sorted(map(tuple, (defs.get(r, []) for r in refs))) != [("extra", "x"), ("x",)]:
                            out["fails"].append(("export_merges_distinct_modules", "two results of an un-memoised generator (one edited to hold a further signal) under one name: "
                                                 "the exported parent refers to %s, defined with signals %s" % (refs, [defs.get(r) for r in refs])))
                        out["notes"].append("uncached_twins_exported")
                    except Exception:
                        out["notes"].append("uncached_twins_refused")
                else:
                    out["notes"].append("uncached_generator_memoised")
            except Exception as e:
                out["notes"].append("uncached_own_raised:" + type(e).__name__)
    if pattern == "direct":
        # parameter values no name can be derived for (two lambdas): whatever such calls do - refuse, or return - and however
        # often they are repeated, no two different modules may come back under one name
        import typing

        @h.paramclass
        class AnyP:
            f = h.Param(dtype=typing.Any, desc="anything")

        def anybody(params: AnyP) -> h.Module:
            m = h.Module()
            m.add(h.Signal(name="x"))
            return m
        anybody.__name__ = "AnyBody"
        A = h.generator(anybody)
        f1, f2 = (lambda: 1), (lambda: 2)
        got = []
        for f in (f1, f1, f2, f2):
            try:
                got.append(A(f=f))
            except Exception:
                got.append(None)
        mods = [g for g in got if g is not None]
        for i in range(len(mods)):
            for j in range(i + 1, len(mods)):
                if mods[i] is not mods[j] and mods[i].name == mods[j].name:
                    out["fails"].append(("name_collision:unnameable_params", "calls with two different unnameable parameter values (repeated after a refusal) "
                                         "returned two Modules both named %r (outcomes of the four calls: %s)" % (mods[i].name, [None if g is None else g.name for g in got])))
                    break
            else:
                continue
            break
        out["notes"].append("unnameable_calls:" + "".join("r" if g is None else "m" for g in got))
    out["equal"] = equal
    out["rendered_equal"] = render(case["vals1"]) == render(case["vals2"])
    return out


def render(vals):
    return " ".join("%s=%s" % (k, v.get("v")) for k, v in sorted(vals.items()))


def run_all(case):
    """Parent-side: four pristine children with different histories."""
    outs = []
    for hist in ("plain", "calls", "alloc", "sibling"):
        v = par.pristine(run_case, case, hist)
        if par.is_exc(v):
            return {"harness": "%s %s %s" % (v[1], v[2], v[3][-800:])}
        outs.append(v)
    r = outs[0]
    fails = list(r["fails"])
    if not r.get("rejected"):
        for hist, o in zip(("calls", "alloc", "sibling"), outs[1:]):
            if o.get("names") != r.get("names") and o.get("names") and r.get("names"):
                fails.append(("name_depends_on_process_history:" + hist, "names %s in a plain process, %s after %s" % (r.get("names"), o.get("names"), hist)))
    r["fails"] = fails
    return r


def nontrivial(case, r):
    return bool(r.get("rendered_equal")) or (r.get("equal") and case["vals1"] != case["vals2"]) or case.get("pattern", "direct") != "direct"


def strategies():
    from hypothesis import strategies as st
    codes = ["int", "float", "str", "bool", "oint", "ofloat", "ostr", "enum", "nested", "scalar", "prefixed", "module", "gen", "set", "tuple"]
    # members of set- and tuple-valued fields: ints and strings only (1 != "1" whatever the container), alike when rendered with str()
    member = st.one_of(st.integers(-2, 3).map(lambda i: {"t": "int", "v": str(i)}),
                       st.sampled_from(["1", "2", "-1", "a", "1, 2", "", "'1'", "[1]"]).map(lambda w: {"t": "str", "v": w}))
    tricky = st.text(alphabet="xyab =_'\"1", min_size=0, max_size=8)
    strs = st.one_of(tricky, st.sampled_from(["x", "x b=y", "y", "z", "y b=z", "None", "", " ", "a=1", "'x'", "True", "1", "1.0"]),
                     st.integers(100, 125).map(lambda n: "q" * n))

    def val(code):
        J = lambda t: (lambda v: {"t": t, "v": v})
        if code == "int":
            return st.one_of(st.integers(-3, 3), st.integers()).map(lambda i: {"t": "int", "v": str(i)})
        if code == "float":
            return st.one_of(st.sampled_from([1.0, 1e0, 0.1 + 0.2, 0.3, -0.0, 0.0, 0.0, -0.0, 1e22, 1e-11, 2.5]), st.floats(allow_nan=False, allow_infinity=False)).map(lambda x: {"t": "float", "v": float(x).hex()})
        if code == "str":
            return strs.map(J("str"))
        if code == "bool":
            return st.booleans().map(J("bool"))
        if code == "oint":
            return st.one_of(st.just({"t": "none"}), val("int"))
        if code == "ofloat":
            return st.one_of(st.just({"t": "none"}), val("float"))
        if code == "ostr":
            return st.one_of(st.just({"t": "none"}), val("str"))
        if code == "enum":
            return st.sampled_from(["RED", "GREEN", "BLUE"]).map(J("enum"))
        if code == "nested":
            return st.tuples(st.integers(0, 2), st.sampled_from(["", "a", "a b"])).map(lambda t: {"t": "nested", "v": {"x": t[0], "s": t[1]}})
        if code in ("scalar", "prefixed"):
            pr = st.one_of(st.sampled_from([["1000", -3], ["1", 0], ["0.001", 3], ["1", 3], ["1000", 0], ["1.0", 0], ["2.50", -6], ["0.0025", -3],
                                            ["6", -21], ["14", -21], ["7000", -24], ["13000", -24], ["1.000000000000000000006", 0]]),
                           st.tuples(st.integers(-999, 999).map(str), st.sampled_from(PREFIX_EXPS)).map(list),
                           # long numbers (29..40 digits): results of exact arithmetic; their neighbours differ in the last digit only
                           st.tuples(st.integers(10**28, 10**40).map(str), st.sampled_from(PREFIX_EXPS)).map(list)).map(lambda v: {"t": "pref", "v": v})
            if code == "prefixed":
                return pr
            return st.one_of(pr, st.integers(-5, 5).map(lambda i: {"t": "int", "v": str(i)}), st.sampled_from(["w/5", "1e3", "x y"]).map(J("str")),
                             st.sampled_from(["lit", "1"]).map(lambda s: {"t": "lit", "v": s}))
        if code == "module":
            return st.one_of(st.integers(0, 8), st.integers(0, 13), st.integers(9, 13), st.integers(12, 13)).map(J("module"))
        if code == "gen":
            return st.integers(0, 1).map(J("gen"))
        if code == "set":
            return st.lists(member, max_size=3, unique_by=lambda m: (m["t"], m["v"])).map(J("set"))
        if code == "tuple":
            return st.lists(member, max_size=3).map(J("tuple"))
        raise ValueError(code)

    def near(draw, code, v):
        """A value of the same field that is unequal to v but as close to it as the type allows (or None if there is none)."""
        import math
        t = v["t"]
        if t == "float":
            x = float.fromhex(v["v"])
            k = draw(st.integers(0, 4))
            y = [math.nextafter(x, math.inf), x * (1 + 1e-13), x * (1 - 1e-15), x + 1e-7, float("%.12g" % x)][k]
            if x == 0:
                y = [5e-324, 1e-300, -1e-300, 1e-7, 1e-13][k]
            return {"t": "float", "v": float(y).hex()} if y != x and math.isfinite(y) else None
        if t == "int":
            return {"t": "int", "v": str(int(v["v"]) + draw(st.sampled_from([1, -1])))}
        if t == "str":
            w = v["v"]
            y = draw(st.sampled_from([w + " ", " " + w, w.replace(" ", "  "), repr(w), w + "'", w.replace("=", " = "), w.upper(), w[:-1]]))
            return {"t": "str", "v": y} if y != w else None
        if t == "bool":
            return {"t": "bool", "v": not v["v"]}
        if t == "none":
            return {"t": "str", "v": "None"} if code == "ostr" else {"t": "int", "v": "0"} if code == "oint" else {"t": "float", "v": (0.0).hex()} if code == "ofloat" else None
        if t == "pref":
            d = Decimal(v["v"][0])
            with __import__("decimal").localcontext() as ctx:
                ctx.prec = 200
                y = d + Decimal(1).scaleb(d.as_tuple().exponent - draw(st.sampled_from([0, 0, 1, 5, 18])))
            return {"t": "pref", "v": [str(y), v["v"][1]]}
        if t == "nested":
            return {"t": "nested", "v": {"x": v["v"]["x"], "s": v["v"]["s"] + " "}}
        if t == "module":
            return {"t": "module", "v": {0: 1, 1: 0, 2: 8, 8: 2, 3: 2, 4: 5, 5: 4, 6: 7, 7: 6, 9: 2, 10: 2, 11: 2, 12: 13, 13: 12}[v["v"]]}  # the most alike other pool entry
        if t in ("set", "tuple") and v["v"]:
            # one member swapped between the int and the string of the same digits (or the order of a tuple reversed)
            ms = json.loads(json.dumps(v["v"]))
            i = draw(st.integers(0, len(ms) - 1))
            m = ms[i]
            if t == "tuple" and len(ms) > 1 and ms != ms[::-1] and draw(st.booleans()):
                return {"t": t, "v": ms[::-1]}
            if m["t"] == "int":
                ms[i] = {"t": "str", "v": m["v"]}
            elif m["v"].lstrip("-").isdigit():
                ms[i] = {"t": "int", "v": m["v"]}
            else:
                ms[i] = {"t": "str", "v": m["v"] + " "}
            if t == "set" and len({(x["t"], x["v"]) for x in ms}) != len(ms):
                return None
            return {"t": t, "v": ms}
        return None

    @st.composite
    def cases(draw):
        n = draw(st.integers(1, 4))
        names = ["a", "b", "c", "d"][:n]
        mode = draw(st.integers(0, 9))
        if mode <= 2:
            fcodes = [draw(st.sampled_from(["str", "ostr", "int", "float", "oint"])) for _ in names]  # all-scalar: readable names
        else:
            fcodes = [draw(st.sampled_from(codes)) for _ in names]
        fields = [[nm, c] for nm, c in zip(names, fcodes)]
        vals1 = {nm: draw(val(c)) for nm, c in fields}
        how = draw(st.integers(0, 9))
        if how <= 2:
            vals2 = json.loads(json.dumps(vals1))  # equal, written the same
        elif how == 3:
            vals2 = json.loads(json.dumps(vals1))  # equal, but every field that can be is written differently
            for k in names:
                v = vals1[k]
                if v["t"] == "float" and float.fromhex(v["v"]) == 0:
                    vals2[k] = {"t": "float", "v": (-float.fromhex(v["v"])).hex()}  # 0.0 / -0.0
                elif v["t"] == "module" and v["v"] in (9, 10, 11):
                    vals2[k] = {"t": "module", "v": draw(st.sampled_from([x for x in (9, 10, 11) if x != v["v"]]))}
                elif v["t"] == "pref":
                    d_ = Decimal(v["v"][0])
                    j = PREFIX_EXPS.index(v["v"][1])
                    j2 = max(0, min(len(PREFIX_EXPS) - 1, j + draw(st.sampled_from([-2, -1, 1, 2]))))
                    if d_.is_finite() and len(d_.as_tuple().digits) < 45:
                        with __import__("decimal").localcontext() as ctx:
                            ctx.prec = 200
                            vals2[k] = {"t": "pref", "v": [str(d_.scaleb(v["v"][1] - PREFIX_EXPS[j2])), PREFIX_EXPS[j2]]}
        elif how <= 4:
            vals2 = json.loads(json.dumps(vals1))  # differ in one field
            k = draw(st.sampled_from(names))
            vals2[k] = draw(val(dict(fields)[k]))
        elif how <= 6:
            vals2 = json.loads(json.dumps(vals1))  # differ in one field, by as little as the type allows
            k = draw(st.sampled_from(names))
            nv = near(draw, dict(fields)[k], vals1[k])
            vals2[k] = nv if nv is not None else draw(val(dict(fields)[k]))
        else:
            vals2 = {nm: draw(val(c)) for nm, c in fields}
        # the classic readable-name collision: a='x b=y', b='z'  vs  a='x', b='y b=z'
        if n >= 2 and fcodes[0] in ("str", "ostr") and fcodes[1] in ("str", "ostr") and draw(st.integers(0, 3)) == 0:
            # ... also with the quote characters a renderer might wrap strings in
            q = draw(st.sampled_from(["", "", "'", '"', "\\'"]))
            vals1["a"], vals1["b"] = {"t": "str", "v": "x%s b=%sy" % (q, q)}, {"t": "str", "v": "z"}
            vals2 = json.loads(json.dumps(vals1))
            vals2["a"], vals2["b"] = {"t": "str", "v": "x"}, {"t": "str", "v": "y%s b=%sz" % (q, q)}
        # equal calls of one external module whose parameter is written differently: equal parameters, one Module
        mods_ = [nm for nm, c in fields if c == "module"]
        if mods_ and draw(st.integers(0, 2)) == 0:
            k = draw(st.sampled_from(mods_))
            a_, b_ = draw(st.permutations([9, 10, 11]))[:2]
            vals1[k] = {"t": "module", "v": a_}
            vals2 = json.loads(json.dumps(vals1))
            vals2[k] = {"t": "module", "v": b_}
        # prefixed numbers below the comparison tolerance of old: distinct values, however small, are distinct parameters
        prs_ = [nm for nm, c in fields if c in ("scalar", "prefixed")]
        if prs_ and draw(st.integers(0, 5)) == 0:
            k = draw(st.sampled_from(prs_))
            a_, b_ = draw(st.sampled_from([(["6", -21], ["14", -21]), (["7000", -24], ["13000", -24]), (["1.000000000000000000006", 0], ["1.000000000000000000014", 0]),
                                           (["3", -24], ["4", -24]), (["0.000000000000000000001", 0], ["0.000000000000000000002", 0])]))
            vals1[k] = {"t": "pref", "v": a_}
            vals2 = json.loads(json.dumps(vals1))
            vals2[k] = {"t": "pref", "v": b_}
        if draw(st.integers(0, 11)) == 0:
            strs_r = st.sampled_from(["", "x", "x y", "a=1", "None"])
            return {"pattern": "recursive", "fields": [["n", "int"], ["s", "str"]], "vals1": {}, "vals2": {},
                    "n1": draw(st.integers(0, 4)), "n2": draw(st.integers(0, 4)), "s1": draw(strs_r), "s2": draw(strs_r)}
        pattern = draw(st.sampled_from(["direct", "direct", "direct", "passthrough", "passthrough2", "nested", "both_through", "uncached_through", "uncached_both"]))
        case = {"fields": fields, "vals1": vals1, "vals2": vals2, "pattern": pattern,
                "form1": draw(st.sampled_from(["kw", "inst"])), "form2": draw(st.sampled_from(["kw", "inst"]))}
        if draw(st.integers(0, 5)) == 0:
            case["interrupt"] = draw(st.sampled_from(["Exception", "KeyboardInterrupt", "SystemExit", "custom_base"]))
            case["interrupt_where"] = draw(st.sampled_from(["top", "nested"]))
        return case

    return cases()


def shard(idx, n, tier):
    setup()
    par.server()
    import hypothesis
    from hypothesis import given, settings, HealthCheck, Phase
    res = core.Result()
    nex = (32000 if tier == "thorough" else 1600) // n

    @hypothesis.seed(env.subseed(PID, idx))
    @settings(max_examples=nex, database=None, deadline=None, derandomize=False,
              suppress_health_check=list(HealthCheck), phases=[Phase.generate], report_multiple_bugs=False)
    @given(strategies())
    def run(case):
        r = run_all(case)
        if "harness" in r:
            res.harness_error(r["harness"])
            return
        for nname in r.get("notes", []):
            res.notes[nname] += 1
        if r.get("rejected"):
            res.evaluations += 1
            return
        for sig, detail in r["fails"]:
            res.fail(sig, case, detail)
        feats = ["pattern_" + case["pattern"], "equal" if r.get("equal") else "unequal"] + ["dtype_" + c for _, c in case["fields"]]
        if case.get("interrupt"):
            feats.append("first_call_aborted_by_" + case["interrupt"])
            if case.get("interrupt_where") == "nested":
                feats.append("aborted_call_caught_inside_another_generator")
        if r.get("rendered_equal"):
            feats.append("rendered_equal")
        res.case(case, nontrivial(case, r), feats)

    run()
    return res


def replay(case):
    setup()
    r = run_all(case)
    if "harness" in r:
        raise RuntimeError(r["harness"])
    return [tuple(f) for f in r["fails"]]


def main(tier):
    t0 = time.time()
    setup()
    res = par.run_shards(shard, extra=(tier,))
    return core.finish(PID, LEVEL, tier, res, RULE, ASSUME, replay, t0, min_nontrivial=100)
