"""C04 - The last connection made to a port is the one that gets built.

Generated operation histories (connect-by-call, by-assignment, connect(), replace(), disconnect())
over the instances, arrays and pairs of every module of a generated design, every connectable kind
appearing as the replaced and as the replacing object; the exported design must equal the reference
interpreter's circuit of the FINAL mapping, and Instance.conns must track the history step by step."""
import time
from .. import env, core, par, gen, model
from . import c01

PID = "C04"
LEVEL = "exploration"
RULE = ("Designs from the C01 generator in which every module carries an interleaved operation history: each port first receives "
        "0-3 earlier connections of any kind valid for it (signal, slice, concat, port reference, bundle instance, sub-bundle "
        "reference, anonymous bundle, no-connect, shared no-connect), is possibly disconnected or replace()d, and ends with its final "
        "connection (or disconnected, when it is only referenced). Oracle: after every step Instance.conns holds exactly the running "
        "mapping (same objects); the exported package is isomorphic to the reference interpreter's circuit of the final mapping - "
        "anything replaced or disconnected leaves no electrical trace. The replaced-kind x replacing-kind transition matrix is in the "
        "evidence (features T:old->new). Non-trivial = history in which a port was re-connected after having held a port reference, "
        "bundle, anonymous bundle, bundle reference or no-connect; distinct by canonical spec hash.")
ASSUME = ["the reference interpreter evaluates the final mapping only", "a stale (replaced) port reference to a port is not a use of that port"]


def run_one(res, spec):
    feats = list(spec.get("features", []))
    try:
        v = par.pristine(c01.eval_case, spec)
    except par.ChildCrash as e:
        res.harness_error("child crash: %s" % e)
        return
    if par.is_exc(v):
        res.harness_error("harness exception in child: %s: %s\n%s" % (v[1], v[2], v[3][-1500:]))
        return
    st = v["status"]
    if st == "model_reject":
        res.notes["generator_produced_invalid_spec:" + v["detail"][:50]] += 1
        return
    case = {k: spec[k] for k in spec if k != "features"}
    if st == "reject":
        # metamorphic: the same final mapping written without any history
        plain = {k: case[k] for k in case}
        plain["modules"] = [{k: m[k] for k in m if k != "history"} for m in case["modules"]]
        v2 = par.pristine(c01.eval_case, plain)
        if not par.is_exc(v2) and v2["status"] == "agree":
            res.fail("history_breaks_elaboration:" + v["sig"], case,
                     "the final mapping elaborates when written directly, but after the operation history elaboration raises: %s" % v["detail"][-300:])
            res.case(case, "replaced_ref_like" in feats, feats)
            return
        res.reject(v["sig"])
        res.evaluations += 1
        return
    if st == "inconclusive":
        res.notes["iso_inconclusive"] += 1
        res.evaluations += 1
        return
    if st == "fail":
        res.fail(v["sig"], case, v["detail"])
    res.case(case, "replaced_ref_like" in feats, feats)


def shard(idx, n, tier):
    env.setup_paths()
    import hdl21  # noqa
    par.server()
    import hypothesis
    from hypothesis import given, settings, HealthCheck, Phase
    res = core.Result()
    nex = (48000 if tier == "thorough" else 4000) // n
    variants = [gen.Opts(history=True, max_modules=3, max_insts=4), gen.Opts(history=True, max_modules=2, max_insts=4, arrays=False, pairs=False, prims=False),
                # reference-heavy: many ports without a connection of their own, kept alive from inside anonymous bundles
                gen.Opts(history=True, min_modules=2, max_modules=2, max_insts=4, arrays=False, pairs=False, prims=False, open_pct=25, anon_pref_pct=60,
                         bundle_port_pct=90),
                # template-heavy: many `n * inst` arrays made in mid-history beside reference-only nets of scalar ports
                gen.Opts(history=True, min_modules=2, max_modules=2, max_insts=5, pairs=False, prims=False, bundles=False, open_pct=30, array_pct=40, pref_weight=90, wide=False)]
    for vi, opts in enumerate(variants):
        @hypothesis.seed(env.subseed(PID, idx, vi))
        @settings(max_examples=max(1, nex // len(variants)), database=None, deadline=None, derandomize=False,
                  suppress_health_check=list(HealthCheck), phases=[Phase.generate], report_multiple_bugs=False)
        @given(gen.designs(opts))
        def run(spec):
            run_one(res, spec)
        run()
    return res


def replay(case):
    res = core.Result()
    run_one(res, dict(case, features=["replaced_ref_like"]))
    if res.harness_errors:
        raise RuntimeError(res.harness_errors[0])
    return [(sig, lst[0]["detail"]) for sig, lst in res.failures.items()]


def shrink_fn(case, sig):
    return c01.shrink_fn(case, sig)


def main(tier):
    t0 = time.time()
    env.setup_paths()
    import hdl21  # noqa
    res = par.run_shards(shard, extra=(tier,))
    return core.finish(PID, LEVEL, tier, res, RULE, ASSUME, replay, t0, min_nontrivial=100)
