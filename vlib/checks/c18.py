"""C18 - Module and bundle namespaces stay coherent under any edit sequence.

Generated operation sequences (setattr / add / add(name=) / get / attribute read / negative operations)
over a 5-letter name alphabet, executed against a Module (or Bundle) and a model dict in lock step."""
import json, time
from .. import env, core, par

PID = "C18"
LEVEL = "exploration"
RULE = ("Hypothesis-generated sequences of 1..30 operations on one Module or one Bundle: setattr(name, value), add(value), "
        "add(value, name=), re-adding an attribute under its own name, assigning an already-held object under a second name (which moves it), assigning a held object to another module too and handing it back by re-adding it, switching a held signal's visibility and re-assigning it, get(name), attribute read, and negative operations (reserved "
        "names, non-HDL values, delattr, sub-classing, add with both / neither name, additions after elaboration), names drawn from "
        "{a,b,c,d,e} (add() also: _a, _b), values of every attribute kind (signal, signal with a direction but no port visibility, each port direction, "
        "instance, array, instance bundle - of port-less cells - and bundle instance; for Bundles: signal, bundle instance). After "
        "every step: namespace == model; each per-kind view holds exactly the model's entries of its kind; get(), attribute access and "
        "the views return the same object; a signal is in `ports` iff it has port visibility; the object reports the module as parent; "
        "negative operations raise and change nothing. At the end the module is exported and must list exactly the model's signals, "
        "ports and instances, and the same content defined class-style - with underscore-named HDL and non-HDL temporaries in the class body - must have the same names and export the same package. Non-trivial = a name re-used for "
        "an object of another kind; distinct by canonical operation list.")
ASSUME = ["assigning an already-held object under a second name moves it there ('each name denotes exactly one object' and an object reports "
          "one name): the first name must be gone from namespace and views",
          "add(value, name='ports') style reserved names through add() and additions to a Bundle after 'elaboration' are recorded, not asserted"]

NAMES = ["a", "b", "c", "d", "e"]
MOD_KINDS = ["signal", "signal_dir", "input", "output", "inout", "port", "instance", "array", "instbundle", "bundle", "bundle_port"]
BUN_KINDS = ["signal", "input", "output", "bsub"]
VIEW_OF = {"vis_port": "ports", "vis_signal": "signals", "signal": "signals", "signal_dir": "signals", "input": "ports", "output": "ports", "inout": "ports", "port": "ports",
           "instance": "instances", "array": "instarrays", "instbundle": "instbundles", "bundle": "bundles", "bundle_port": "bundles"}
BVIEW_OF = {"signal": "signals", "input": "signals", "output": "signals", "bsub": "bundles"}


def H():
    env.setup_paths()
    import hdl21 as h
    return h


class Mk:
    def __init__(self, h):
        self.h = h
        self.leaf = h.ExternalModule(name="Leaf", port_list=[], domain="verif")
        self.inner = h.Bundle(name="InnerB")
        self.inner.add(h.Signal(name="q"))

    def make(self, kind, name=None):
        h = self.h
        from hdl21.signal import PortDir
        kw = {} if name is None else {"name": name}
        if kind == "signal":
            return h.Signal(width=2, **kw)
        if kind == "signal_dir":
            return h.Signal(direction=PortDir.OUTPUT, **kw)
        if kind == "input":
            return h.Input(**kw)
        if kind == "output":
            return h.Output(width=3, **kw)
        if kind == "inout":
            return h.Inout(**kw)
        if kind == "port":
            return h.Port(**kw)
        if kind == "instance":
            return h.Instance(of=self.leaf(), **kw)
        if kind == "array":
            return h.InstanceArray(of=self.leaf(), n=2, **kw)
        if kind == "instbundle":
            o = h.Pair(self.leaf())
            if name is not None:
                o.name = name
            return o
        if kind in ("bundle", "bsub"):
            return self.inner(**kw)
        if kind == "bundle_port":
            return self.inner(port=True, **kw)
        raise ValueError(kind)


def views(obj, is_module):
    if is_module:
        return {"ports": obj.ports, "signals": obj.signals, "instances": obj.instances, "instarrays": obj.instarrays,
                "instbundles": obj.instbundles, "bundles": obj.bundles}
    return {"signals": obj.signals, "bundles": obj.bundles}


def invariant(h, obj, modelmap, is_module, step, out, lent=()):
    vo = VIEW_OF if is_module else BVIEW_OF
    ns = obj.namespace
    if set(ns) != set(modelmap) or any(ns[k] is not v[1] for k, v in modelmap.items()):
        out.append(("namespace_mismatch", "after step %d: namespace %s, expected %s" % (step, sorted(ns), sorted(modelmap))))
        return
    vs = views(obj, is_module)
    for vname, view in vs.items():
        want = {k for k, (kind, o) in modelmap.items() if vo[kind] == vname}
        if set(view) != want:
            stale = sorted(set(view) - want)
            miss = sorted(want - set(view))
            out.append(("view_%s:%s" % ("stale" if stale else "missing", vname), "after step %d: view %s holds %s, expected %s" % (step, vname, sorted(view), sorted(want))))
        else:
            for k in want:
                if view[k] is not modelmap[k][1]:
                    out.append(("view_other_object:" + vname, "after step %d: %s[%r] is not the object that was assigned" % (step, vname, k)))
    for k, (kind, o) in modelmap.items():
        if obj.get(k) is not o:
            out.append(("get_other_object", "after step %d: get(%r) is not the assigned object" % (step, k)))
        try:
            if not k.startswith("_") and getattr(obj, k) is not o:  # (underscore names are private Python attributes for getattr / setattr)
                out.append(("getattr_other_object", "after step %d: attribute %r is not the assigned object" % (step, k)))
        except Exception as e:
            out.append(("getattr_raises", "after step %d: attribute %r raised %r" % (step, k, e)))
        if not is_module:
            if k not in lent and getattr(o, "_parent_bundle", None) is not obj:
                out.append(("parent_not_set", "after step %d: %r does not report the bundle as its parent" % (step, k)))
        if is_module:
            if k not in lent and getattr(o, "_parent_module", None) is not obj:
                out.append(("parent_not_set", "after step %d: %r does not report the module as its parent" % (step, k)))
            if isinstance(o, h.Signal):
                from hdl21.signal import Visibility
                if (o.vis == Visibility.PORT) != (k in obj.ports):
                    out.append(("port_listing", "after step %d: signal %r visibility %s but in ports: %s" % (step, k, o.vis, k in obj.ports)))


def run_case(case):
    """In a forked child. -> list of (sig, detail), notes"""
    h = H()
    mk = Mk(h)
    is_module = case["target"] == "module"
    obj = h.Module(name="Edit") if is_module else h.Bundle(name="EditB")
    modelmap = {}
    other = h.Module(name="Other") if is_module else h.Bundle(name="OtherB")
    lent = set()
    lent_objs = {}  # id -> (object, the name it has in the other container)
    pattr = "_parent_module" if is_module else "_parent_bundle"
    out, notes = [], []
    reused_other_kind = False
    for step, op in enumerate(case["ops"]):
        t = op[0]
        before = dict(modelmap)
        try:
            if t in ("setattr", "add", "add_name"):
                name, kind = op[1], op[2]
                if name in modelmap and modelmap[name][0] != kind:
                    reused_other_kind = True
                if t == "setattr":
                    v = mk.make(kind)
                    setattr(obj, name, v)
                elif t == "add":
                    v = mk.make(kind, name)
                    r = obj.add(v)
                    if r is not v:
                        out.append(("add_return", "add() did not return the added object"))
                else:
                    v = mk.make(kind)
                    obj.add(v, name=name)
                modelmap[name] = (kind, v)
                if v.name != name:
                    out.append(("name_not_set", "object added as %r reports name %r" % (name, v.name)))
            elif t == "alias":
                src, dst = op[1], op[2]
                if src in modelmap and src != dst:
                    if dst in modelmap and modelmap[dst][0] != modelmap[src][0]:
                        reused_other_kind = True
                    setattr(obj, dst, modelmap[src][1])  # an attribute has one name: the object moves from src to dst
                    modelmap[dst] = modelmap.pop(src)
                    if id(modelmap[dst][1]) in lent:  # (assigning it here again also hands a lent object back)
                        lent.discard(id(modelmap[dst][1]))
                        lent_objs.pop(id(modelmap[dst][1]), None)
                    notes.append("moved_to_second_name")
            elif t == "flipvis":
                # a held signal's visibility is switched (internal <-> port) and it is re-assigned under its name, which re-files it
                name = op[1]
                if name in modelmap and is_module and VIEW_OF.get(modelmap[name][0]) in ("signals", "ports") and id(modelmap[name][1]) not in lent:
                    from hdl21.signal import Visibility
                    kind0, o = modelmap[name]
                    o.vis = Visibility.INTERNAL if o.vis == Visibility.PORT else Visibility.PORT
                    dst = op[2] if len(op) > 2 else name
                    setattr(obj, dst, o)  # under its own name, or - moving it at the same time - under another
                    newkind = ("vis_port" if o.vis == Visibility.PORT else "vis_signal")
                    if dst != name:
                        if dst in modelmap and modelmap[dst][0] != newkind:
                            reused_other_kind = True
                        modelmap.pop(name)
                        notes.append("visibility_switched_and_moved")
                    modelmap[dst] = (newkind, o)
                    notes.append("visibility_switched")
            elif t == "lend":
                # the object is also assigned to ANOTHER module (which now claims it) - and may be handed back by a later readd
                name = op[1]
                if name in modelmap:
                    oname = name if len(op) < 3 else op[2]  # under the same name there, or under another one
                    setattr(other, oname, modelmap[name][1])
                    lent.add(id(modelmap[name][1]))
                    lent_objs[id(modelmap[name][1])] = (modelmap[name][1], oname)
                    notes.append("lent_to_another_module" if is_module else "lent_to_another_bundle")
                    if oname != name:
                        # in the other container the object has another name, which it now reports: here it is held under a name it
                        # no longer reports - handing it back (readd) restores that
                        pass
            elif t == "readd":
                name = op[1]
                if name in modelmap:
                    setattr(obj, name, modelmap[name][1])
                    if id(modelmap[name][1]) in lent:
                        lent.discard(id(modelmap[name][1]))
                        lent_objs.pop(id(modelmap[name][1]), None)
                        notes.append("handed_back")
            elif t == "get":
                pass
            elif t == "neg":
                what = op[1]
                raised = False
                try:
                    if what == "reserved":
                        setattr(obj, op[2], mk.make("signal"))
                    elif what == "nonhdl":
                        setattr(obj, "a", {"int": 5, "str": "x", "module": h.Module(name="Z"), "list": [1], "none": None,
                                           "extmod": mk.leaf, "call": mk.leaf()}[op[2]])
                    elif what == "nonhdl_add":
                        obj.add(5, name="a")
                    elif what == "class_reserved":
                        # a class body that binds a reserved name - to an HDL object or to anything else - is not a definition
                        body = {"a": mk.make("signal"), op[2]: {"int": 3, "signals": h.Signals(2), "signal": mk.make("signal"), "dict": {}}[op[3]]}
                        (h.module if is_module else h.bundle)(type("Reserved", (), body))
                    elif what == "delattr":
                        if modelmap:
                            delattr(obj, sorted(modelmap)[0])
                        else:
                            delattr(obj, "a")
                    elif what == "subclass":
                        type("Sub", (type(obj),), {})
                    elif what == "both_names":
                        obj.add(mk.make("signal", "a"), name="b")
                    elif what == "no_name":
                        obj.add(mk.make("signal"))
                except Exception:
                    raised = True
                if not raised:
                    out.append(("negative_accepted:%s" % what + (":" + str(op[2]) if len(op) > 2 else ""), "operation %s was accepted" % (op,)))
                    return out, notes, reused_other_kind  # state is now undefined
        except Exception as e:
            out.append(("valid_op_raises:%s:%s" % (t, type(e).__name__), "step %d %s raised %s: %s" % (step, op, type(e).__name__, str(e)[-200:])))
            return out, notes, reused_other_kind
        n0 = len(out)
        invariant(h, obj, modelmap, is_module, step, out, lent={k2 for k2, v2 in modelmap.items() if id(v2[1]) in lent})
        # what the other container was given and still holds reports THAT container as its parent, whatever happens here meanwhile
        for oid, (o2, oname) in lent_objs.items():
            if other.get(oname) is o2 and getattr(o2, pattr, None) is not other:
                out.append(("lent_object_parent_lost", "after step %d: the object assigned to the other %s as %r reports parent %r" % (
                    step, "module" if is_module else "bundle", oname, getattr(o2, pattr, None))))
        if len(out) > n0:
            return out, notes, reused_other_kind
    # final export and class-style equivalence
    if any(v2[0] in ("vis_port", "vis_signal") for v2 in modelmap.values()):
        notes.append("final_phase_skipped_visibility_switched")
        return out, notes, reused_other_kind
    if any(id(v2[1]) in lent for v2 in modelmap.values()):
        notes.append("final_phase_skipped_object_lent")
        return out, notes, reused_other_kind
    if len({id(o) for _k, o in modelmap.values()}) != len(modelmap) or any(o.name != k for k, (_kd, o) in modelmap.items()):
        # an object is still held under two names, or under a name other than the one it reports (it was renamed by a second
        # assignment): what such a module exports as is not stated anywhere
        notes.append("final_phase_skipped_alias_left")
        return out, notes, reused_other_kind
    if is_module:
        try:
            pkg = h.to_proto(obj)
        except Exception as e:
            out.append(("export_raises:%s" % type(e).__name__, "exporting the edited module raised %s" % str(e)[-300:]))
            return out, notes, reused_other_kind
        pm = pkg.modules[-1]
        want_sigs = {}
        want_ports = set()
        want_insts = set()
        for k, (kind, o) in modelmap.items():
            if kind in ("signal", "signal_dir"):
                want_sigs[k] = o.width
            elif kind in ("input", "output", "inout", "port"):
                want_sigs[k] = o.width
                want_ports.add(k)
            elif kind == "instance":
                want_insts.add(k)
            elif kind == "array":
                want_insts |= {"%s_0" % k, "%s_1" % k}
            elif kind == "instbundle":
                want_insts |= {"%s_p" % k, "%s_n" % k}
            elif kind in ("bundle", "bundle_port"):
                want_sigs["%s_q" % k] = 1
                if kind == "bundle_port":
                    want_ports.add("%s_q" % k)
        got_sigs = {}
        for s in pm.signals:
            if s.name in got_sigs:
                out.append(("export_duplicate_signal", "signal %r exported twice" % s.name))
            got_sigs[s.name] = s.width
        got_ports = [p.signal for p in pm.ports]
        got_insts = [i.name for i in pm.instances]
        # generated names may carry trailing underscores when they clash with designer names: compare modulo that only on clash
        def norm(names, designer):
            return {n.rstrip("_") if n not in designer and n.rstrip("_") != n else n for n in names}
        designer = set(modelmap)
        if norm(got_sigs, designer) != set(want_sigs) and set(got_sigs) != set(want_sigs):
            out.append(("export_signals", "exported signals %s, expected %s" % (sorted(got_sigs), sorted(want_sigs))))
        if norm(got_ports, designer) != want_ports and set(got_ports) != want_ports or len(got_ports) != len(set(got_ports)):
            out.append(("export_ports", "exported ports %s, expected %s" % (sorted(got_ports), sorted(want_ports))))
        if norm(got_insts, designer) != want_insts and set(got_insts) != want_insts or len(got_insts) != len(set(got_insts)):
            out.append(("export_instances", "exported instances %s, expected %s" % (sorted(got_insts), sorted(want_insts))))
        # additions after elaboration
        for how in ("add", "setattr"):
            try:
                if how == "add":
                    obj.add(mk.make("signal", "zz_late"))
                else:
                    setattr(obj, "zz_late2", mk.make("signal"))
                out.append(("addition_after_elaboration:" + how, "%s after elaboration was accepted" % how))
            except Exception:
                pass
        # class-style definition of the same final content (a class body cannot give underscore names: those are temporaries)
        try:
            if any(k.startswith("_") for k in modelmap):
                raise StopIteration
            attrs = {}
            for k, (kind, o) in modelmap.items():
                attrs[k] = mk.make(kind)
            # underscore-named temporaries of a class body (HDL-valued or not) are documented not to become members
            attrs["_tmp_sig"] = mk.make("signal")
            attrs["_tmp_inst"] = mk.make("instance")
            attrs["_tmp_n"] = 3
            cm = h.module(type("Edit", (), attrs))
            if set(cm.namespace) != set(modelmap):
                out.append(("class_style_namespace", "class-style module has names %s, expected %s" % (sorted(cm.namespace), sorted(modelmap))))
            cpkg = h.to_proto(cm)
            a, b = pkg.modules[-1], cpkg.modules[-1]
            if (sorted((s.name, s.width) for s in a.signals) != sorted((s.name, s.width) for s in b.signals)
                    or sorted((p.signal, p.direction) for p in a.ports) != sorted((p.signal, p.direction) for p in b.ports)
                    or sorted(i.name for i in a.instances) != sorted(i.name for i in b.instances)):
                out.append(("class_style_differs", "class-style definition exports %s / %s, procedural %s / %s" % (
                    sorted(s.name for s in b.signals), sorted(i.name for i in b.instances), sorted(s.name for s in a.signals), sorted(i.name for i in a.instances))))
        except StopIteration:
            notes.append("class_style_skipped_underscore_name")
        except Exception as e:
            out.append(("class_style_raises:%s" % type(e).__name__, str(e)[-200:]))
    else:
        # Bundle: class-style equivalence of the final content, and use inside a module
        try:
            if any(k.startswith("_") for k in modelmap):
                notes.append("class_style_skipped_underscore_name")
                attrs = None
            else:
                attrs = {k: mk.make(kind) for k, (kind, o) in modelmap.items()}
                attrs["_tmp_sig"] = mk.make("signal")
                attrs["_tmp_sub"] = mk.make("bsub")
                attrs["_tmp_n"] = 3
                cb = h.bundle(type("EditB", (), attrs))
                if set(cb.namespace) != set(modelmap):
                    out.append(("class_style_namespace", "class-style bundle has names %s, expected %s" % (sorted(cb.namespace), sorted(modelmap))))
                if set(cb.signals) != set(obj.signals) or set(cb.bundles) != set(obj.bundles):
                    out.append(("class_style_differs", "class-style bundle has %s/%s, procedural %s/%s" % (sorted(cb.signals), sorted(cb.bundles), sorted(obj.signals), sorted(obj.bundles))))
            m = h.Module(name="UsesB")
            m.add(obj(port=True), name="p")
            pkg = h.to_proto(m)
            want = set()
            for k, (kind, o) in modelmap.items():
                want.add("p_%s" % k if kind != "bsub" else "p_%s_q" % k)
            got = [s.name for s in pkg.modules[-1].signals]
            if set(got) != want or len(got) != len(set(got)):
                out.append(("bundle_export_signals", "a module with a port of the edited bundle exports %s, expected %s" % (sorted(got), sorted(want))))
        except Exception as e:
            out.append(("bundle_use_raises:%s" % type(e).__name__, str(e)[-200:]))
    return out, notes, reused_other_kind


def batch_run(cases):
    res = core.Result()
    for c in cases:
        try:
            fails, notes, reused = run_case(c)
        except Exception:
            import traceback
            res.harness_error("crash on %s: %s" % (json.dumps(c)[:300], traceback.format_exc()[-1200:]))
            continue
        for sig, detail in fails:
            res.fail(sig + ":" + c["target"], c, detail)
        feats = [c["target"]] + sorted({"op_" + (op[0] if op[0] != "neg" else "neg_" + op[1]) for op in c["ops"]}) + sorted(set(notes))
        if reused:
            feats.append("name_reused_other_kind")
        res.case(c, reused, feats)
    return res


def shard(idx, n, tier):
    H()
    par.server()
    import hypothesis
    from hypothesis import given, settings, HealthCheck, Phase, strategies as st
    res = core.Result()
    nex = (64000 if tier == "thorough" else 6400) // n

    def ops_for(target):
        kinds = MOD_KINDS if target == "module" else BUN_KINDS
        name = st.sampled_from(NAMES)
        kind = st.sampled_from(kinds)
        banned = ["ports", "signals", "instances", "instarrays", "instbundles", "bundles", "literals", "props", "namespace", "add", "get"] \
            if target == "module" else ["signals", "bundles", "namespace"]
        uname = st.sampled_from(NAMES + NAMES + ["_a", "_b"])  # add() may give a leading-underscore name, setattr cannot
        pos = st.one_of(st.tuples(st.just("setattr"), name, kind), st.tuples(st.just("setattr"), name, kind),
                        st.tuples(st.just("add"), uname, kind), st.tuples(st.just("add_name"), uname, kind),
                        st.tuples(st.just("readd"), name), st.tuples(st.just("get"), name), st.tuples(st.just("alias"), name, name), st.tuples(st.just("lend"), name), st.tuples(st.just("lend"), name, name), st.tuples(st.just("flipvis"), name), st.tuples(st.just("flipvis"), name, name))
        neg = st.one_of(st.tuples(st.just("neg"), st.just("reserved"), st.sampled_from(banned)),
                        st.tuples(st.just("neg"), st.just("nonhdl"), st.sampled_from(["int", "str", "module", "list", "none", "extmod", "call"])),
                        st.tuples(st.just("neg"), st.just("nonhdl_add")),
                        st.tuples(st.just("neg"), st.just("class_reserved"), st.sampled_from(banned if target == "module" else ["signals", "bundles"]),
                                  st.sampled_from(["int", "signals", "signal", "dict"])),
                        st.tuples(st.just("neg"), st.sampled_from(["delattr", "subclass", "both_names", "no_name"])))
        return st.lists(st.one_of(pos, pos, pos, pos, neg), min_size=1, max_size=30).map(lambda l: [list(x) for x in l])

    case_s = st.sampled_from(["module", "module", "bundle"]).flatmap(lambda t: ops_for(t).map(lambda ops: {"target": t, "ops": ops}))
    batch = []

    def flush():
        if batch:
            r = par.pristine(batch_run, list(batch), timeout=900)
            if par.is_exc(r):
                res.harness_error("batch crashed: %s %s" % (r[1], r[3][-800:]))
            else:
                res.merge(r)
            batch.clear()

    @hypothesis.seed(env.subseed(PID, idx))
    @settings(max_examples=nex, database=None, deadline=None, derandomize=False,
              suppress_health_check=list(HealthCheck), phases=[Phase.generate], report_multiple_bugs=False)
    @given(case_s)
    def run(case):
        batch.append(case)
        if len(batch) >= 100:
            flush()

    run()
    flush()
    return res


def replay(case):
    r = par.in_child(run_case, case)
    if par.is_exc(r):
        raise RuntimeError(r[2])
    return [(sig + ":" + case["target"], d) for sig, d in r[0]]


def main(tier):
    t0 = time.time()
    H()
    res = par.run_shards(shard, extra=(tier,))
    return core.finish(PID, LEVEL, tier, res, RULE, ASSUME, replay, t0, min_nontrivial=200)
