"""C11 - Exported packages survive a round trip through from_proto.

P2 = to_proto(tops(from_proto(P))) must equal P, for packages from generated designs (single top),
the corpus, and a parameter-space sweep over primitives / external modules."""
import time, json
from types import SimpleNamespace
from .. import env, core, par, gen, design, corpus, pkgcheck

PID = "C11"
LEVEL = "translation_validation"
RULE = ("Packages P from (1) Hypothesis-generated designs exported from a single top, (2) the examples / built-in generator corpus, "
        "(3) a parameter-space sweep: every primitive and dict-typed external module with generated values (prefixed numbers with "
        "every prefix and long mantissas, literals, ints, floats, strings), external modules with every SpiceType, port direction "
        "and width, module literals (incl. texts with surrounding whitespace and arbitrary short text). Each P is imported with from_proto, the imported modules that no other imported module "
        "instantiates are re-exported in package order, and the result must equal P field by field. Non-trivial = P has a slice or "
        "concat target, a prefixed or literal parameter, or an external module; distinct by package hash.")
ASSUME = ["protobuf message equality is the comparison", "tops are recovered as the imported modules nobody instantiates, in package order",
          "packages are exported from a single top so that depth-first order is a function of the package"]


def collect_modules(ns, out):
    import hdl21 as h
    for k, v in vars(ns).items():
        if isinstance(v, SimpleNamespace):
            collect_modules(v, out)
        elif isinstance(v, h.Module):
            out.append(v)


def roundtrip(pkg):
    env.setup_paths()
    import hdl21 as h
    from hdl21.qualname import qualname
    ns = h.from_proto(pkg)
    mods = []
    collect_modules(ns, mods)
    byname = {qualname(m): m for m in mods}
    used = set()
    for m in mods:
        for inst in m.instances.values():
            if isinstance(inst.of, h.Module):
                used.add(id(inst.of))
    order = [pm.name for pm in pkg.modules]
    tops = [byname[n] for n in order if n in byname and id(byname[n]) not in used]
    return h.to_proto(tops, domain=pkg.domain)


def diff(p1, p2):
    """-> None or (sig, detail) describing the first difference."""
    if p1 == p2:
        return None
    if p1.domain != p2.domain:
        return "domain", "domain %r vs %r" % (p1.domain, p2.domain)
    n1 = [m.name for m in p1.modules]; n2 = [m.name for m in p2.modules]
    if n1 != n2:
        return "module_list", "modules %s vs %s" % (n1, n2)
    e1 = [(e.name.domain, e.name.name) for e in p1.ext_modules]; e2 = [(e.name.domain, e.name.name) for e in p2.ext_modules]
    if e1 != e2:
        return "ext_module_list", "external modules %s vs %s" % (e1, e2)
    for a, b in zip(p1.ext_modules, p2.ext_modules):
        if a != b:
            for f in ("spicetype", "ports", "signals", "desc"):
                if getattr(a, f) != getattr(b, f):
                    return "ext_module." + f, "external module %s: %s differs: %s vs %s" % (a.name.name, f, str(getattr(a, f))[:200], str(getattr(b, f))[:200])
            return "ext_module.other", str(a)[:200]
    for a, b in zip(p1.modules, p2.modules):
        if a == b:
            continue
        for f in ("ports", "signals", "literals"):
            if list(getattr(a, f)) != list(getattr(b, f)):
                return "module." + f, "module %s: %s differ: %s vs %s" % (a.name, f, str(list(getattr(a, f)))[:300], str(list(getattr(b, f)))[:300])
        i1 = [i.name for i in a.instances]; i2 = [i.name for i in b.instances]
        if i1 != i2:
            return "module.instance_list", "module %s instances %s vs %s" % (a.name, i1, i2)
        for x, y in zip(a.instances, b.instances):
            if x == y:
                continue
            if x.module != y.module:
                return "instance.target", "%s.%s target %s vs %s" % (a.name, x.name, str(x.module)[:100], str(y.module)[:100])
            if list(x.parameters) != list(y.parameters):
                px = {p.name: p.value for p in x.parameters}; py = {p.name: p.value for p in y.parameters}
                for k in px:
                    if k not in py:
                        return "instance.param_missing", "%s.%s parameter %s lost (value %s)" % (a.name, x.name, k, str(px[k]).strip()[:80])
                    if px[k] != py[k]:
                        kind = "%s->%s" % (px[k].WhichOneof("value"), py[k].WhichOneof("value"))
                        return "instance.param_value:" + kind, "%s.%s parameter %s: %s vs %s" % (a.name, x.name, k, str(px[k]).strip()[:80], str(py[k]).strip()[:80])
                for k in py:
                    if k not in px:
                        return "instance.param_added", "%s.%s parameter %s appeared (value %s)" % (a.name, x.name, k, str(py[k]).strip()[:80])
                return "instance.param_order", "%s.%s parameter order %s vs %s" % (a.name, x.name, list(px), list(py))
            if list(x.connections) != list(y.connections):
                cx = {c.portname: c.target for c in x.connections}; cy = {c.portname: c.target for c in y.connections}
                for k in cx:
                    if k not in cy or cx[k] != cy[k]:
                        return "instance.connection", "%s.%s connection %s: %s vs %s" % (a.name, x.name, k, str(cx[k]).replace("\n", " ")[:120], str(cy.get(k)).replace("\n", " ")[:120])
                return "instance.connection_order", "%s.%s connection order" % (a.name, x.name)
            return "instance.other", "%s.%s differs" % (a.name, x.name)
        return "module.other", "module %s differs" % a.name
    return "other", "packages differ"


def check_pkg_bytes(b):
    import vlsir.circuit_pb2 as vckt
    pkg = vckt.Package(); pkg.ParseFromString(b)
    try:
        p2 = roundtrip(pkg)
    except Exception as e:
        return [("roundtrip_raises:%s" % type(e).__name__, "%s: %s" % (type(e).__name__, str(e)[-300:]))], pkg
    d = diff(pkg, p2)
    return ([d] if d else []), pkg


def eval_design(spec):
    try:
        pkg, _ = design.export(spec)
    except Exception as e:
        return {"status": "reject", "sig": design.exc_bucket(e)}
    b = pkg.SerializeToString(deterministic=True)
    fails, pkg = check_pkg_bytes(b)
    return {"status": "ok", "fails": fails, "feats": sorted(pkgcheck.pkg_features(pkg)), "hash": env.canon_hash(b.hex())}


def eval_corpus(index, tier):
    r = corpus.export_item(index, tier)
    if "error" in r:
        return {"status": "reject", "sig": r["error"][:80]}
    fails, pkg = check_pkg_bytes(r["pkg"])
    return {"status": "ok", "fails": fails, "feats": sorted(pkgcheck.pkg_features(pkg)), "hash": env.canon_hash(r["pkg"].hex())}


def eval_params(case):
    """case: {"insts": [C13-style instance cases], "ext": [...ext module shapes], "literals": [...]}"""
    env.setup_paths()
    import hdl21 as h
    from . import c13
    from vlsirtools import SpiceType
    g = c13.H()
    feats_extra = []
    if case.get("earlier") and case.get("ext"):
        # history: another package was imported in this process before - one declaring external cells of the same names, domains
        # and port names, but of other widths, directions and spice types
        m0 = h.Module(name="PEarlier")
        for j, es in enumerate(case["earlier"][:len(case["ext"])]):
            now = case["ext"][j]
            shape = [es["ports"][i % len(es["ports"])] for i in range(len(now["ports"]))]
            ports = [{"in": h.Input, "out": h.Output, "inout": h.Inout, "port": h.Port}[d](name="p%d" % pi, width=w) for pi, (w, d) in enumerate(shape)]
            X = h.ExternalModule(name="E%d" % j, port_list=ports, domain=now.get("domain", "verif"), spicetype=getattr(SpiceType, es["spicetype"]), paramtype=dict)
            inst = X()()
            for p_ in ports:
                inst.connect(p_.name, m0.add(h.Signal(name="e%d_%s" % (j, p_.name), width=p_.width)))
            m0.add(inst, name="x%d" % j)
        try:
            h.from_proto(h.to_proto(m0))
            feats_extra.append("same_named_ext_imported_earlier")
        except Exception:
            pass
    m = h.Module(name="PTop")
    k = 0
    for ic in case.get("insts", []):
        try:
            params = {kk: c13.dec(v) for kk, v in ic["params"].items()}
            if ic["kind"] == "prim":
                call = getattr(g["hp"], ic["prim"])(**params)
            else:
                call = g["XD"](**params)
        except Exception:
            continue
        inst = call()
        for pn in call.ports:
            inst.connect(pn, m.add(h.Signal(name="n%d_%s" % (k, pn))))
        m.add(inst, name="i%d" % k)
        k += 1
    for j, es in enumerate(case.get("ext", [])):
        ports = []
        for pi, (w, d) in enumerate(es["ports"]):
            ports.append({"in": h.Input, "out": h.Output, "inout": h.Inout, "port": h.Port}[d](name="p%d" % pi, width=w))
        X = h.ExternalModule(name="E%d" % j, port_list=ports, domain=es.get("domain", "verif"), spicetype=getattr(SpiceType, es["spicetype"]),
                             paramtype=dict)
        inst = X()()
        for p in ports:
            inst.connect(p.name, m.add(h.Signal(name="e%d_%s" % (j, p.name), width=p.width)))
        m.add(inst, name="x%d" % j)
    for t in case.get("literals", []):
        m.literals.append(h.Literal(t))
    try:
        pkg = h.to_proto(m)
    except Exception as e:
        return {"status": "reject", "sig": design.exc_bucket(e)}
    b = pkg.SerializeToString(deterministic=True)
    fails, pkg = check_pkg_bytes(b)
    return {"status": "ok", "fails": fails, "feats": sorted(pkgcheck.pkg_features(pkg)) + ["param_sweep"] + feats_extra, "hash": env.canon_hash(b.hex() + str(feats_extra))}


def record(res, case, v, source):
    if v["status"] == "reject":
        res.reject(v["sig"])
        res.evaluations += 1
        return
    for sig, detail in v["fails"]:
        res.fail(sig, case, detail)
    f = set(v["feats"])
    nt = bool(f & {"target_slice", "target_concat", "param_prefixed", "param_literal", "ext_module"})
    res.case(case, nt, [source] + list(v["feats"]), key=v["hash"])


def shard(idx, n, tier):
    env.setup_paths()
    import hdl21  # noqa
    from . import c13
    c13.H()
    par.server()
    res = core.Result()
    its = corpus.items(tier)
    for k in range(len(its)):
        if k % n == idx:
            v = par.pristine(eval_corpus, k, tier)
            if par.is_exc(v):
                res.harness_error("corpus %s: %s %s" % (its[k][0], v[1], v[2]))
                continue
            record(res, {"corpus": its[k][0]}, v, "corpus")
    import hypothesis
    from hypothesis import given, settings, HealthCheck, Phase, strategies as st
    nex = (40000 if tier == "thorough" else 2400) // n

    @hypothesis.seed(env.subseed(PID, idx))
    @settings(max_examples=nex, database=None, deadline=None, derandomize=False,
              suppress_health_check=list(HealthCheck), phases=[Phase.generate], report_multiple_bugs=False)
    @given(gen.designs(gen.Opts()))
    def run(spec):
        v = par.pristine(eval_design, spec)
        if par.is_exc(v):
            res.harness_error("design: %s %s %s" % (v[1], v[2], v[3][-600:]))
            return
        record(res, {"design": {k: spec[k] for k in spec if k != "features"}}, v, "generated")

    run()

    inst_cases = c13.strategies(tier).filter(lambda c: c["kind"] in ("prim", "ext") and c.get("ext", "XD") == "XD")
    ext_shape = st.fixed_dictionaries({
        "ports": st.lists(st.tuples(st.integers(1, 5), st.sampled_from(["in", "out", "inout", "port"])), min_size=1, max_size=4),
        "spicetype": st.sampled_from(["SUBCKT", "RESISTOR", "CAPACITOR", "INDUCTOR", "MOS", "DIODE", "BIPOLAR", "VSOURCE", "ISOURCE"]),
        "domain": st.sampled_from(["verif", "", "a.b"])})
    def respell(ic, shift):
        """A copy of an instance case in which every prefixed value is written with another prefix (same value)."""
        from decimal import Decimal
        out = json.loads(json.dumps(ic))
        for k, v in out["params"].items():
            if v.get("t") == "pref":
                exps = c13.PREFIX_EXPS
                i = exps.index(v["v"][1])
                j = max(0, min(len(exps) - 1, i + shift))
                d = Decimal(v["v"][0])
                if d.is_finite() and len(d.as_tuple().digits) < 40:
                    v["v"] = [str(d.scaleb(exps[i] - exps[j])), exps[j]]
            elif v.get("t") == "int" and abs(int(v["v"])) < 10**15:
                out["params"][k] = {"t": "pref", "v": [str(Decimal(int(v["v"])).scaleb(3)), -3]}
        return out

    # sources whose parameters are all literals, numeric-looking ones included (the renamed pulse fields above all)
    numlit = st.sampled_from(["1e-9", "5", "0.5", "1E3", "tdel", "w/5", "2*tr", "-3.0", ".5", "1n"]).map(lambda t: {"t": "lit", "v": t})
    lit_sources = st.sampled_from(["PulseVoltageSource", "PulseVoltageSource", "SineVoltageSource", "DcVoltageSource"]).flatmap(
        lambda nm: st.fixed_dictionaries({k: numlit for k, p in getattr(c13.H()["hp"], nm).paramtype.__params__.items() if "Prefixed" in str(p.dtype)}).map(
            lambda ps: {"kind": "prim", "prim": nm, "params": ps}))
    twins = st.tuples(inst_cases, st.sampled_from([-2, -1, 1, 2])).map(lambda t: [t[0], respell(t[0], t[1])])
    inst_lists = st.one_of(st.lists(inst_cases, min_size=0, max_size=3), twins, st.lists(lit_sources, min_size=1, max_size=2),
                           st.tuples(twins, inst_cases).map(lambda t: t[0] + [t[1]]))
    pcase = st.fixed_dictionaries({"insts": inst_lists,
                                   "ext": st.lists(ext_shape, min_size=0, max_size=2),
                                   "earlier": st.one_of(st.just([]), st.lists(ext_shape, min_size=1, max_size=2)),
                                   "literals": st.lists(st.one_of(
                                       st.sampled_from([".include 'x.sp'", "* comment", "", "a b c", ".param k=1", "  .option post ", "\t* tab",
                                                        "two\nlines\n", " ", "* trailing  "]),
                                       st.text(max_size=10)), max_size=3)})

    @hypothesis.seed(env.subseed(PID, "p", idx))
    @settings(max_examples=nex, database=None, deadline=None, derandomize=False,
              suppress_health_check=list(HealthCheck), phases=[Phase.generate], report_multiple_bugs=False)
    @given(pcase)
    def run2(case):
        v = par.pristine(eval_params, case)
        if par.is_exc(v):
            res.harness_error("params: %s %s %s" % (v[1], v[2], v[3][-600:]))
            return
        record(res, {"params": case}, v, "param_sweep")

    run2()
    return res


def replay(case):
    if "design" in case:
        v = par.in_child(eval_design, case["design"])
    elif "corpus" in case:
        names = [nm for nm, _ in corpus.items("thorough")]
        v = par.in_child(eval_corpus, names.index(case["corpus"]), "thorough")
    else:
        v = par.in_child(eval_params, case["params"])
    if par.is_exc(v):
        raise RuntimeError(v[2])
    return [tuple(f) for f in v.get("fails", [])]


def main(tier):
    t0 = time.time()
    env.setup_paths()
    import hdl21  # noqa
    res = par.run_shards(shard, extra=(tier,))
    return core.finish(PID, LEVEL, tier, res, RULE, ASSUME, replay, t0, min_nontrivial=100)
