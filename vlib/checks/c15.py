"""C15 - PDK compilation swaps device targets and nothing else.

(a) exhaustive sweep of the PDK device tables (readme tables joined with the walkers' own tables):
    every row by model name, every (type, family, threshold) triple, size / multiplier variants;
(b) Hypothesis: requests embedded at drawn depths of a hierarchy with shared sub-modules, compiled
    once / twice / through hdl21.pdk.compile (default, by name, by module), with one or several PDKs registered;
(c) every logic cell of the Sky130 and GF180 libraries instantiated, exported and netlisted."""
import io, json, re, time
from decimal import Decimal
from fractions import Fraction
from .. import env, core, par, pkgread, pkgcheck

PID = "C15"
LEVEL = "exploration"
RULE = ("(a) enumerated: every row of every PDK device table (sample, Sky130, GF180, ASAP7) requested by model name, every "
        "(MosType, MosFamily, MosVth) triple (all 2*6*7), each mapped generic primitive (Mos, 2-/3-terminal resistor and capacitor, diode, "
        "bipolar) with sizes given / defaulted, multiplier / fingers given / defaulted, Prefixed and Literal sizes; a row is asserted only "
        "when the readme table and the walker's table agree on it. (b) Hypothesis: 1-6 such requests mixed with unmapped instances (ideal "
        "primitives, external modules, sub-modules) at drawn depths of a hierarchy with shared sub-modules, compiled once, twice, and via "
        "hdl21.pdk.compile by default / by name / by module with one or several PDKs registered, each configuration in its own pristine "
        "process. (c) every logic cell of sky130_hdl21.digital_cells.* and gf180_hdl21.digital_cells.* with all ports connected, each alone and each library as a whole in one package. Oracle: "
        "hierarchy, instance names and conns (same keys, same objects) unchanged; unmapped instances keep their target object; each mapped "
        "target is an ExternalModuleCall of a documented row matching the request (exactly the named row for a model name); given "
        "w/l/nf/mult appear unchanged under the PDK's parameter names, defaulted ones are non-None; every instance connects exactly its "
        "device's ports; the design passes the closure checker, exports and netlists (spice, spectre); equal requests get equal calls; "
        "compiling twice changes nothing; a request no row satisfies raises an exception other than StopIteration with a message. "
        "Non-trivial = selection by triple, defaulted/explicit sizes, depth > 1, repeat compile, or >= 2 PDKs registered; distinct by case text.")
ASSUME = ["rows present on one side only (readme vs walker tables) are listed, not asserted", "sizes a PDK derives (diode area / perimeter, "
          "fixed-width precision resistors, Literal re-scaling) are recorded, not asserted",
          "a request made through a primitive with fewer ports than the selected device may raise; if it is accepted the design must be valid"]

PDKS = {"sample": "hdl21.pdk.sample_pdk", "sky130": "sky130_hdl21", "gf180": "gf180_hdl21", "asap7": "asap7_hdl21"}
REGNAME = {"sample": "hdl21.pdk.sample_pdk.pdk", "sky130": "sky130_hdl21.pdk_logic", "gf180": "gf180_hdl21.pdk_logic", "asap7": "asap7_hdl21.pdk"}


def imp(pdk):
    env.setup_paths(pdks=True)
    import importlib
    return importlib.import_module(PDKS[pdk])


def readme_rows(pdk):
    """Parse the markdown tables of the PDK readme: list of {header: cell}."""
    path = {"sky130": env.REPO + "/pdks/Sky130/readme.md", "gf180": env.REPO + "/pdks/Gf180/readme.md"}.get(pdk)
    if not path:
        return []
    rows, hdr = [], None
    for line in open(path, encoding="utf-8"):
        line = line.strip()
        if not line.startswith("|"):
            hdr = None
            continue
        cells = [c.strip() for c in line.strip("|").split("|")]
        if all(re.fullmatch(r":?-+:?", c) for c in cells if c):
            continue
        if hdr is None:
            hdr = cells
            continue
        rows.append(dict(zip(hdr, cells)))
    return rows


def tables(pdk):
    """In a child: the asserted device rows. -> {"mos": [{key, tp, fam, vth, name, ports}], "res": [...], ...}"""
    h = __import__("hdl21")
    mod = imp(pdk)
    out = {"mos": [], "res": [], "cap": [], "diode": [], "bjt": [], "unjoined": []}
    if pdk == "sample":
        out["mos"] = [{"key": None, "tp": "NMOS", "name": "nmos", "ports": 4}, {"key": None, "tp": "PMOS", "name": "pmos", "ports": 4}]
        return out
    if pdk == "asap7":
        for tp in ("NMOS", "PMOS"):
            for vth, suffix in (("STD", "_rvt"), ("LOW", "_lvt")):
                out["mos"].append({"key": None, "tp": tp, "vth": vth, "name": tp[0].lower() + "mos" + suffix, "ports": 4})
        return out
    import importlib
    pd = importlib.import_module(PDKS[pdk] + ".primitives.prim_dicts")
    rr = readme_rows(pdk)
    keycol = "Component Key" if pdk == "sky130" else "Component Name"
    namecol = "Component Name" if pdk == "sky130" else "Model Name"
    doc = {r[keycol]: r for r in rr if keycol in r}
    for k, em in pd.xtors.items():
        r = doc.get(k[0])
        enums = [x.name for x in k[1:]]
        if r is None or r.get(namecol) != em.name:
            out["unjoined"].append("mos:" + str(k[0]))
            continue
        row = {"key": k[0], "name": em.name, "ports": len(em.port_list)}
        if pdk == "sky130":
            if [r.get("MosType"), r.get("MosVth"), r.get("MosFamily")] != enums:
                out["unjoined"].append("mos-triple:" + str(k[0]))
                continue
            row.update(tp=enums[0], vth=enums[1], fam=enums[2])
        else:
            if [r.get("Mos Type"), r.get("Mos Family")] != enums:
                out["unjoined"].append("mos-triple:" + str(k[0]))
                continue
            row.update(tp=enums[0], fam=enums[1], vth=None)
        out["mos"].append(row)
    for cls, d in (("res", pd.ress), ("cap", pd.caps), ("diode", pd.diodes), ("bjt", pd.bjts)):
        for k, em in d.items():
            r = doc.get(k)
            if r is None or r.get(namecol) != em.name:
                out["unjoined"].append("%s:%s" % (cls, k))
                continue
            out[cls].append({"key": k, "name": em.name, "ports": len(em.port_list), "paramtype": em.paramtype.__name__})
    return out


# ---------------------------------------------------------------------------
# requests


def val(v):
    h = __import__("hdl21")
    if v is None:
        return None
    if v["t"] == "pref":
        from hdl21.prefix import Prefix, Prefixed
        return Prefixed(number=Decimal(v["v"][0]), prefix=Prefix(v["v"][1]))
    if v["t"] == "lit":
        return h.Literal(v["v"])
    if v["t"] == "int":
        return int(v["v"])
    raise ValueError(v)


def make_call(req):
    import hdl21 as h
    import hdl21.primitives as hp
    prim = getattr(hp, req["prim"])
    kw = {}
    for k, v in req.get("params", {}).items():
        if k in ("tp", "vth", "family"):
            enum = {"tp": (hp.MosType if req["prim"] == "Mos" else hp.BipolarType), "vth": hp.MosVth, "family": hp.MosFamily}[k]
            kw[k] = enum[v]
        elif k == "model":
            kw[k] = v
        else:
            kw[k] = val(v)
    return prim(**kw)


PARAM_MAP = {  # (pdk, primitive class) -> {primitive field: candidate device fields}
    ("sky130", "Mos"): {"w": ["w"], "l": ["l"], "nf": ["nf"], "mult": ["mult", "m"]},
    ("sky130", "res"): {"w": ["w"], "l": ["l"]},
    ("sky130", "cap"): {"w": ["w"], "l": ["l"], "mult": ["mf", "vm"]},
    ("sky130", "bjt"): {"mult": ["m"]},
    ("gf180", "Mos"): {"w": ["w"], "l": ["l"], "nf": ["nf"], "mult": ["m"]},
    ("gf180", "res"): {"w": ["r_width"], "l": ["r_length"]},
    ("gf180", "cap"): {"w": ["c_width"], "l": ["c_length"]},
    ("gf180", "bjt"): {"mult": ["m"]},
    ("sample", "Mos"): {"w": ["w"], "l": ["l"], "nf": ["nf"], "mult": ["m"]},
    ("asap7", "Mos"): {"w": ["w"], "l": ["l"], "nf": ["nf"], "mult": ["mult"]},
}
CLS = {"Mos": "Mos", "PhysicalResistor": "res", "ThreeTerminalResistor": "res", "PhysicalCapacitor": "cap", "ThreeTerminalCapacitor": "cap",
       "Diode": "diode", "Bipolar": "bjt"}
MAPPED = {"sample": {"Mos"}, "asap7": {"Mos"}, "sky130": set(CLS), "gf180": set(CLS)}


def exactv(x):
    tn = type(x).__name__
    if tn == "Prefixed":
        return Fraction(x.number) * Fraction(10) ** x.prefix.value
    if isinstance(x, (int, float)):
        return Fraction(x)
    return ("other", repr(x))


def expected_rows(pdk, tabs, req):
    """-> (kind, rows) : kind 'named' | 'triple' | 'none-mapped'"""
    p = req.get("params", {})
    cls = CLS[req["prim"]]
    if cls == "Mos":
        if p.get("model") is not None and pdk in ("sky130", "gf180"):
            return "named", [r for r in tabs["mos"] if r["key"] == p["model"]]
        tp = p.get("tp", "NMOS")
        fam = p.get("family", "NONE")
        vth = p.get("vth", "STD")
        if pdk == "sample":
            return "triple", [r for r in tabs["mos"] if r["tp"] == ("PMOS" if tp == "PMOS" else "NMOS")]
        if pdk == "asap7":
            return "triple", [r for r in tabs["mos"] if r["tp"] == tp and r["vth"] == vth]
        if pdk == "sky130":
            return "triple", [r for r in tabs["mos"] if (r["tp"], r["fam"], r["vth"]) == (tp, fam, vth)]
        return "triple", [r for r in tabs["mos"] if (r["tp"], r["fam"]) == (tp, fam)]
    return "named", [r for r in tabs[cls] if r["key"] == p.get("model")]


# ---------------------------------------------------------------------------
# one scenario in a pristine child


def build(reqs, shape):
    """Hierarchy: level modules L0..Ld; request i sits at level shape['levels'][i]; each level k>0 instantiates level k-1 twice."""
    import hdl21 as h
    depth = shape["depth"]
    X = h.ExternalModule(name="Unmapped", port_list=[h.Port(name="a"), h.Port(name="b")], domain="verif")
    mods = []
    req_insts = []
    for lvl in range(depth):
        m = h.Module(name="Lvl%d" % lvl)
        m.add(h.Port(name="vss"))
        m.add(h.Signal(name="n0"))
        m.add(h.R(r=1000)(p=m.n0, n=m.vss), name="ideal_r")
        m.add(X()(a=m.n0, b=m.vss), name="ext_x")
        if lvl > 0:
            m.add(mods[lvl - 1](vss=m.vss), name="sub_a")
            m.add(mods[lvl - 1](vss=m.vss), name="sub_b")
        for i, rq in enumerate(reqs):
            if shape["levels"][i] != lvl:
                continue
            call = make_call(rq)
            inst = call()
            for pn in call.ports:
                sname = "r%d_%s" % (i, pn)
                sig = m.vss if pn in ("b", "s") and shape.get("tie") else m.add(h.Signal(name=sname))
                inst.connect(pn, sig)
            m.add(inst, name="dev%d" % i)
            req_insts.append((i, lvl, "dev%d" % i))
        mods.append(m)
    return mods, req_insts


def snapshot(top):
    import hdl21 as h
    seen = {}

    def walk(m):
        if id(m) in seen:
            return
        d = {}
        for name, inst in m.instances.items():
            d[name] = (inst, inst.of, dict(inst.conns))
            if isinstance(inst.of, h.Module):
                walk(inst.of)
        seen[id(m)] = (m, d)
    walk(top)
    return seen


def scenario(case):
    """case: {"pdks": [...], "target": pdk, "how": "direct|default|name|module", "twice": bool, "reqs": [...], "shape": {...}}"""
    import hdl21 as h
    out = {"fails": [], "notes": []}
    mods_ = {p: imp(p) for p in case["pdks"]}
    target = case["target"]
    tabs = tables(target)
    try:
        mods, req_insts = build(case["reqs"], case["shape"])
    except Exception as e:
        out["rejected"] = "construct:%s" % type(e).__name__
        return out
    top = mods[-1]
    h.elaborate(top)
    before = snapshot(top)
    pdkmod = mods_[target]
    regmod = getattr(pdkmod, "pdk_logic", None) or getattr(pdkmod, "pdk")
    exp = [expected_rows(target, tabs, rq) for rq in case["reqs"]]
    mapped = [rq["prim"] in MAPPED[target] for rq in case["reqs"]]
    expect_error = any(m and not rows for m, (kind, rows) in zip(mapped, exp))

    src = top
    if case.get("as_list"):
        # compile accepts a list of tops too: this top alone in a list, or behind another (trivial) one
        if case["as_list"] == 2:
            other = h.Module(name="ListMate")
            other.add(h.Signal(name="s"))
            src = [other, top]
        elif case["as_list"] == 3:
            # ... or beside a top that was NOT elaborated before and holds the first request as an array of two
            mate = h.Module(name="FreshListMate")
            call0 = make_call(case["reqs"][0])
            arr = 2 * call0()
            for pn in call0.ports:
                arr.connect(pn, mate.add(h.Signal(name="n_" + pn)))
            mate.add(arr, name="arr")
            src = [top, mate]
        else:
            src = [top]

    def do_compile():
        how = case["how"]
        if how == "direct":
            return pdkmod.compile(src)
        if how == "default":
            return h.pdk.compile(src)
        if how == "name":
            return h.pdk.compile(src, pdk=REGNAME[target])
        return h.pdk.compile(src, pdk=regmod)

    if case.get("pre_walk"):
        # an earlier, unrelated traversal of the same hierarchy (here: the do-nothing base walker) must not matter
        from hdl21.walker import HierarchyWalker
        HierarchyWalker.walk(top)
    if case.get("late_import"):
        # one PDK registered: an un-targeted compile works; then another PDK package is imported (and thereby
        # registered); a further un-targeted compile has no unambiguous default any more and must be refused
        try:
            warm, _ = build([case["reqs"][0]], {"depth": 1, "levels": [0]})
            h.pdk.compile(warm[-1])
        except Exception as e:
            out["notes"].append("warmup_default_compile_raised:%s" % type(e).__name__)
        imp(case["late_import"])
        try:
            h.pdk.compile(top)
            out["fails"].append(("default_ambiguous_accepted", "a second PDK was registered after a default compile; a further un-targeted hdl21.pdk.compile() still compiled instead of reporting that there is no unambiguous default"))
        except Exception as e:
            if not str(e).strip():
                out["fails"].append(("undescriptive_error:%s:%s" % (type(e).__name__, target), "ambiguous default refused without a message"))
        return out
    explicit_default = False
    if case.get("set_default") and case["how"] == "default" and len(case["pdks"]) > 1:
        # several PDKs registered, this one declared the default; then (optionally) a compile aimed at ANOTHER PDK fails -
        # the un-targeted compile that follows must still go to the declared default
        try:
            h.pdk.set_default(regmod if case["set_default"] == "module" else REGNAME[target])
            explicit_default = True
        except Exception as e:
            out["fails"].append(("set_default_raises:%s" % type(e).__name__, str(e)[-200:]))
            return out
        if case.get("failed_other_first"):
            other = [p for p in case["pdks"] if p != target][0]
            bad = h.Module(name="BadForOther")
            bad.d, bad.g, bad.s, bad.b = h.Signals(4)
            bad.add(h.Mos(model="zz_no_such_model_anywhere")(d=bad.d, g=bad.g, s=bad.s, b=bad.b), name="x")
            try:
                h.pdk.compile(bad, pdk=REGNAME[other])
                out["notes"].append("bad_request_to_other_pdk_did_not_raise")
            except BaseException:  # noqa
                pass
            if h.pdk.default() is not regmod:
                out["fails"].append(("default_changed_by_failed_compile", "after a failed compile aimed at %s, hdl21.pdk.default() is %r instead of the declared default" % (other, h.pdk.default())))
                return out
    if case.get("set_default") and case["how"] in ("name", "module") and len(case["pdks"]) > 1:
        # ANOTHER registered PDK is the declared default; the compile below names its target, which therefore decides
        other = [p for p in case["pdks"] if p != target][0]
        try:
            h.pdk.set_default(REGNAME[other])
        except Exception as e:
            out["fails"].append(("set_default_raises:%s" % type(e).__name__, str(e)[-200:]))
            return out
    try:
        do_compile()
    except StopIteration as e:
        out["fails"].append(("undescriptive_error:StopIteration:%s" % target, "compile raised a bare StopIteration for requests %s" % json.dumps(case["reqs"])))
        return out
    except Exception as e:
        msg = str(e).strip()
        if case["how"] == "default" and len(case["pdks"]) > 1 and not explicit_default:
            out["notes"].append("default_with_several_pdks_raises")
            return out
        if expect_error:
            if not msg:
                out["fails"].append(("undescriptive_error:%s:%s" % (type(e).__name__, target), "compile raised %s without a message" % type(e).__name__))
            out["notes"].append("unsatisfiable_request_raised")
            return out
        if msg and any(m and len(rows) > 1 for m, (kind, rows) in zip(mapped, exp)):
            out["notes"].append("ambiguous_request_refused")  # several documented rows match: a descriptive refusal is fine
            return out
        # a request through a primitive with fewer ports than the device may be refused
        short = [i for i, (m, (kind, rows)) in enumerate(zip(mapped, exp)) if m and rows and all(r["ports"] != len(make_call(case["reqs"][i]).ports) for r in rows)]
        if short and msg:
            out["notes"].append("port_count_mismatch_refused")
            return out
        out["fails"].append(("compile_raises:%s:%s:%s" % (case["how"], type(e).__name__, target), "compile (%s) raised %s: %s for %s" % (case["how"], type(e).__name__, msg[-300:], json.dumps(case["reqs"]))))
        return out
    if expect_error:
        out["fails"].append(("unsatisfiable_request_accepted:%s" % target, "no documented row satisfies one of %s, yet compile returned" % json.dumps(case["reqs"])))
        return out
    if case["how"] == "default" and len(case["pdks"]) > 1 and not explicit_default:
        out["fails"].append(("default_ambiguous_accepted", "several PDKs registered, none default, yet hdl21.pdk.compile() compiled"))
    if case.get("as_list") == 3 and mapped[0] and exp[0][1]:
        import hdl21.primitives as hp
        left = [i.name for i in list(mate.instances.values()) + list(mate.instarrays.values())
                if isinstance(getattr(i, "of", None), h.PrimitiveCall) and i.of.prim is getattr(hp, case["reqs"][0]["prim"])]
        if left or len(mate.instances) != 2:
            out["fails"].append(("not_replaced_in_fresh_list_mate:%s:%s" % (target, case["reqs"][0]["prim"]),
                                 "compile([elaborated top, fresh top]) left %s of the fresh top un-mapped (its instances: %s)" % (left, sorted(mate.instances))))
    after = snapshot(top)
    # hierarchy, names, conns
    if set(after) != set(before):
        out["fails"].append(("hierarchy_changed", "set of modules reachable from the top changed"))
        return out
    for mid, (m, d0) in before.items():
        d1 = after[mid][1]
        if list(d0) != list(d1):
            out["fails"].append(("instances_changed", "module %s instances %s -> %s" % (m.name, list(d0), list(d1))))
            continue
        for name, (inst0, of0, conns0) in d0.items():
            inst1, of1, conns1 = d1[name]
            if inst1 is not inst0:
                out["fails"].append(("instance_replaced", "%s.%s is a different Instance object after compile" % (m.name, name)))
            if list(conns0) != list(conns1) or any(conns1[k] is not conns0[k] for k in conns0):
                out["fails"].append(("conns_changed", "%s.%s connections changed: %s -> %s" % (m.name, name, list(conns0), list(conns1))))
            ismapped = isinstance(of0, h.PrimitiveCall) and of0.prim.name in {"Mos": ["Mos"], "res": ["PhysicalResistor", "ThreeTerminalResistor"]}.get("x", [of0.prim.name]) \
                and CLS.get(of0.prim.name) is not None and of0.prim.name in MAPPED[target]
            if not ismapped:
                if of1 is not of0:
                    out["fails"].append(("unmapped_target_changed", "%s.%s (an instance of %s) was given a new target" % (m.name, name, type(of0).__name__)))
                continue
    # per request checks
    calls = {}
    for (i, lvl, iname) in req_insts:
        rq = case["reqs"][i]
        inst = mods[lvl].instances[iname]
        of1 = inst.of
        if not mapped[i]:
            continue
        kind, rows = exp[i]
        if not isinstance(of1, h.ExternalModuleCall):
            out["fails"].append(("not_replaced:%s:%s" % (target, CLS[rq["prim"]]), "request %s still targets %r after compile" % (json.dumps(rq), type(of1).__name__)))
            continue
        names = [r["name"] for r in rows]
        if of1.module.name not in names:
            out["fails"].append(("wrong_device:%s:%s" % (target, kind), "request %s compiled to %s, documented: %s" % (json.dumps(rq), of1.module.name, names)))
        if set(inst.conns) != set(of1.ports):
            out["fails"].append(("device_ports_not_connected:%s:%s:%s" % (target, rq["prim"], of1.module.name), "request %s: instance connects %s, device %s has ports %s" % (
                json.dumps(rq), sorted(inst.conns), of1.module.name, sorted(of1.ports))))
        pm = PARAM_MAP.get((target, CLS[rq["prim"]]), {})
        if type(of1.params).__name__ == "Sky130PrecResParams":
            pm = {}  # fixed-width precision resistors: the PDK derives their size (recorded, not asserted)
            out["notes"].append("precision_resistor_size_recorded")
        dp = of1.params if isinstance(of1.params, dict) else {f: getattr(of1.params, f) for f in getattr(of1.params, "__params__", {})}
        for f, cands in pm.items():
            have = [c for c in cands if c in dp]
            if not have:
                out["notes"].append("param_field_absent:%s:%s" % (target, f))
                continue
            got = dp[have[0]]
            given = rq.get("params", {}).get(f)
            if given is None:
                if got is None and target != "asap7":
                    out["fails"].append(("default_param_none:%s:%s" % (target, f), "request %s: device parameter %s is None" % (json.dumps(rq), have[0])))
            elif given["t"] == "pref":
                want = Fraction(Decimal(given["v"][0])) * Fraction(10) ** given["v"][1]
                if exactv(got) != want:
                    out["fails"].append(("given_param_changed:%s:%s" % (target, f), "request %s: %s given as %s, device parameter %s = %r" % (json.dumps(rq), f, given["v"], have[0], got)))
            else:
                out["notes"].append("literal_size_recorded")
        key = json.dumps(rq, sort_keys=True)
        if key in calls and not (calls[key] == of1):
            out["fails"].append(("equal_requests_unequal_calls:%s" % target, "two requests %s got different device calls" % key))
        calls[key] = of1
    if out["fails"]:
        return out
    # export, closure, netlists; compile twice
    try:
        pkg = h.to_proto(top)
    except Exception as e:
        out["fails"].append(("compiled_design_does_not_export:%s:%s" % (target, type(e).__name__), "to_proto after compile raised %s" % str(e)[-300:]))
        return out
    b1 = pkg.SerializeToString(deterministic=True)
    for kindc, text in pkgread.closure_errors(pkg):
        out["fails"].append(("compiled_package_closure:" + kindc, text))
    if not pkgcheck.has_hdl21_prims(pkg):
        import vlsirtools
        for fmt in ("spice", "spectre"):
            try:
                vlsirtools.netlist(pkg=pkg, dest=io.StringIO(), fmt=fmt)
            except Exception as e:
                out["fails"].append(("compiled_design_does_not_netlist:%s:%s" % (target, fmt), "%s netlisting raised %s: %s" % (fmt, type(e).__name__, str(e)[-300:])))
    if case.get("twice"):
        try:
            do_compile()
            b2 = h.to_proto(top).SerializeToString(deterministic=True)
            if b2 != b1:
                out["fails"].append(("compile_twice_differs:%s" % target, "compiling a second time changed the exported package"))
        except Exception as e:
            out["fails"].append(("compile_twice_raises:%s:%s" % (target, type(e).__name__), "second compile raised %s" % str(e)[-300:]))
    out["hash"] = env.canon_hash(b1.hex())
    return out


# ---------------------------------------------------------------------------
# enumerations


U = {"t": "pref", "v": ["2.5", -6]}
U2 = {"t": "pref", "v": ["750", -9]}
TWO = {"t": "int", "v": "2"}
SIZES = [{}, {"w": U, "l": U2}, {"w": U}, {"l": U2}, {"w": {"t": "lit", "v": "wparam"}, "l": {"t": "lit", "v": "lparam"}}]
MULTS = [{}, {"mult": TWO}, {"nf": TWO}, {"nf": TWO, "mult": {"t": "pref", "v": ["3", 0]}}]
TPS = ["NMOS", "PMOS"]
FAMS = ["NONE", "CORE", "IO", "LP", "HP", "RF"]
VTHS = ["STD", "LOW", "HIGH", "ULTRA_LOW", "ZERO", "NATIVE", "ULTRA_HIGH"]


def enum_names():
    env.setup_paths()
    import hdl21.primitives as hp
    return [m for m in hp.MosType.__members__], [m for m in hp.MosFamily.__members__], [m for m in hp.MosVth.__members__]


def table_cases(tabs_by_pdk):
    tps, fams, vths = enum_names()
    for pdk, tabs in tabs_by_pdk.items():
        base = {"pdks": [pdk], "target": pdk, "how": "direct", "twice": False, "shape": {"depth": 1, "levels": [0]}}
        def mk(req, **kw):
            c = dict(base); c.update(kw); c["reqs"] = [req]; c["shape"] = {"depth": kw.get("depth", 1), "levels": [0]}; c.pop("depth", None)
            return c
        # every triple
        for tp in tps:
            for fam in fams:
                for vth in vths:
                    yield mk({"prim": "Mos", "params": {"tp": tp, "family": fam, "vth": vth}})
        yield mk({"prim": "Mos", "params": {}})
        # every row by model name x size / multiplier variants
        if pdk in ("sky130", "gf180"):
            for r in tabs["mos"]:
                for s in SIZES:
                    for mu in MULTS:
                        p = {"model": r["key"]}; p.update(s); p.update(mu)
                        yield mk({"prim": "Mos", "params": p}, twice=bool(mu))
            for cls, prims in (("res", ["PhysicalResistor", "ThreeTerminalResistor"]), ("cap", ["PhysicalCapacitor", "ThreeTerminalCapacitor"]),
                               ("diode", ["Diode"]), ("bjt", ["Bipolar"])):
                for r in tabs[cls]:
                    for prim in prims:
                        for s in SIZES[:4]:
                            p = {"model": r["key"]}; p.update(s)
                            if cls == "bjt":
                                p.pop("w", None); p.pop("l", None)
                            yield mk({"prim": prim, "params": p})
                        if cls in ("cap", "bjt"):
                            yield mk({"prim": prim, "params": {"model": r["key"], "mult": TWO}})
            yield mk({"prim": "Mos", "params": {"model": "NO_SUCH_DEVICE"}})
            yield mk({"prim": "PhysicalResistor", "params": {"model": "NO_SUCH_DEVICE"}})
            # names that are not table entries but fragments / near misses of entries: no row satisfies them
            keys = {r["key"] for r in tabs["mos"]}
            frags = set()
            for kname in sorted(keys):
                frags |= {kname[:-1], kname[1:], kname.rsplit("_", 1)[0], kname.split("_", 1)[-1], kname.lower(), kname + "_"}
            frags |= {"_", "NMOS", "V"}
            for fr in sorted(f for f in frags if f and f not in keys)[:60]:
                yield mk({"prim": "Mos", "params": {"model": fr}})
            for cls, prim in (("res", "PhysicalResistor"), ("cap", "PhysicalCapacitor"), ("diode", "Diode"), ("bjt", "Bipolar")):
                ck = {r["key"] for r in tabs[cls]}
                for kname in sorted(ck)[:4]:
                    for fr in (kname[:-1], kname.lower() if kname.lower() != kname else kname.upper(), kname + "_"):
                        if fr and fr not in ck:
                            yield mk({"prim": prim, "params": {"model": fr}})
        else:
            for tp in TPS:
                for vth in ("STD", "LOW"):
                    for s in SIZES[:4]:
                        for mu in MULTS:
                            p = {"tp": tp, "vth": vth}; p.update(s); p.update(mu)
                            yield mk({"prim": "Mos", "params": p}, twice=True)
        # ways of naming the PDK
        yield mk({"prim": "Mos", "params": {"tp": "NMOS", "family": "CORE"} if pdk != "asap7" else {"tp": "NMOS"}}, pre_walk=True)
        # several requests for one device in one compile: equal sizes, different fingers / multipliers; and exact repeats
        sel = {"tp": "NMOS", "family": "CORE"} if pdk in ("sky130", "gf180") else {"tp": "NMOS"}
        many = []
        for extra in ({"mult": TWO}, {"mult": {"t": "pref", "v": ["3", 0]}}, {"nf": TWO}, {}, {"mult": TWO}):
            pp = dict(sel); pp.update({"w": U, "l": U2}); pp.update(extra)
            many.append({"prim": "Mos", "params": pp})
        c = dict(base); c["reqs"] = many; c["shape"] = {"depth": 2, "levels": [0, 0, 1, 1, 1]}; c["twice"] = True
        yield c
        other = {"sample": "asap7", "asap7": "sample", "sky130": "gf180", "gf180": "sky130"}[pdk]
        yield mk({"prim": "Mos", "params": {"tp": "PMOS", "family": "CORE"} if pdk != "asap7" else {"tp": "PMOS"}}, how="default", late_import=other)
        for how in ("default", "name", "module"):
            yield mk({"prim": "Mos", "params": {"tp": "PMOS", "family": "CORE"} if pdk != "asap7" else {"tp": "PMOS"}}, how=how)


def logic_cells(which):
    """In a child: names of all logic cells of a library module."""
    import importlib
    env.setup_paths(pdks=True)
    import hdl21 as h
    out = []
    for lib in which:
        m = importlib.import_module(lib)
        for k, v in vars(m).items():
            if isinstance(v, h.ExternalModule):
                out.append((lib, k))
    return out


LIBS = ["sky130_hdl21.digital_cells.high_density", "sky130_hdl21.digital_cells.high_speed", "sky130_hdl21.digital_cells.low_leakage",
        "sky130_hdl21.digital_cells.low_power", "sky130_hdl21.digital_cells.low_speed", "sky130_hdl21.digital_cells.medium_speed",
        "gf180_hdl21.digital_cells.nine_track", "gf180_hdl21.digital_cells.seven_track"]


def cells_batch(items):
    """In a child: each logic cell in its own module, all ports connected, exported, closure-checked, netlisted."""
    import importlib
    env.setup_paths(pdks=True)
    import hdl21 as h
    import vlsirtools
    res = core.Result()
    for lib, name in items:
        em = getattr(importlib.import_module(lib), name)
        case = {"cell": "%s.%s" % (lib, name)}
        fails = []
        try:
            call = em() if em.paramtype is not dict else em()
        except Exception as e:
            try:
                call = em(em.paramtype()) if em.paramtype is not dict else em({})
            except Exception as e2:
                res.fail("logic_cell_not_callable", case, "%s: %s" % (type(e2).__name__, str(e2)[-200:]))
                res.case(case, True, ["logic_cell"])
                continue
        try:
            m = h.Module(name="Cell_" + re.sub(r"\W", "_", name))
            inst = call()
            pn = [p.name for p in em.port_list]
            if len(set(pn)) != len(pn):
                fails.append(("logic_cell_duplicate_ports", "%s declares ports %s" % (em.name, pn)))
            for p in em.port_list:
                inst.connect(p.name, m.add(h.Signal(name="n_" + p.name, width=p.width)))
            m.add(inst, name="u")
            pkg = h.to_proto(m)
            for k, t in pkgread.closure_errors(pkg):
                fails.append(("logic_cell_closure:" + k, t))
            for fmt in ("spice", "spectre"):
                vlsirtools.netlist(pkg=pkg, dest=io.StringIO(), fmt=fmt)
        except Exception as e:
            fails.append(("logic_cell_fails:%s" % type(e).__name__, "%s: %s" % (em.name, str(e)[-200:])))
        for s, d in fails:
            res.fail(s, case, d)
        res.case(case, True, ["logic_cell", lib.split(".")[0]], key=case["cell"])
    return res


def library_whole(lib):
    """In a child: ONE module instantiating every logic cell of a library, exported and closure-checked - two cells that
    share an exported (domain, name), or clash in any other way, only show when they meet in one package."""
    import importlib
    env.setup_paths(pdks=True)
    import hdl21 as h
    res = core.Result()
    case = {"library": lib}
    fails = []
    try:
        m = h.Module(name="All_" + lib.split(".")[-1])
        n = 0
        for k, em in sorted(vars(importlib.import_module(lib)).items()):
            if not isinstance(em, h.ExternalModule):
                continue
            try:
                call = em()
            except Exception:
                call = em(em.paramtype()) if em.paramtype is not dict else em({})
            inst = call()
            for p in em.port_list:
                inst.connect(p.name, m.add(h.Signal(name="n%d_%s" % (n, p.name), width=p.width)))
            m.add(inst, name="u%d" % n)
            n += 1
        pkg = h.to_proto(m)
        for k, t in pkgread.closure_errors(pkg):
            fails.append(("library_closure:" + k, t))
        if len(pkg.ext_modules) != n and not fails:
            fails.append(("library_declares_fewer_cells", "%d cells instantiated, %d external modules declared" % (n, len(pkg.ext_modules))))
    except Exception as e:
        fails.append(("library_fails:%s" % type(e).__name__, str(e)[-300:]))
    for sg, d in fails:
        res.fail(sg, case, d)
    res.case(case, True, ["logic_cell_library_as_a_whole", lib.split(".")[0]], key="whole:" + lib)
    return res


# ---- C06 feed: compiled designs as closure-check items -------------------------------------------

C06_ITEMS = [{"pdks": [p], "target": p, "how": "direct", "twice": False, "shape": {"depth": 2, "levels": [0, 1, 1]},
              "reqs": [{"prim": "Mos", "params": ({"tp": "NMOS", "family": "CORE"} if p != "asap7" else {"tp": "NMOS"})},
                       {"prim": "Mos", "params": ({"tp": "PMOS", "family": "CORE", "w": U, "l": U2} if p != "asap7" else {"tp": "PMOS", "vth": "LOW"})},
                       ({"prim": "PhysicalResistor", "params": {"model": "GEN_PO" if p == "sky130" else "RM1"}} if p in ("sky130", "gf180") else {"prim": "Mos", "params": {"tp": "PMOS"}})]}
             for p in ("sample", "sky130", "gf180", "asap7")]


def closure_count(tier):
    return len(C06_ITEMS)


def closure_item(index):
    case = C06_ITEMS[index]
    import hdl21 as h
    imp(case["target"])
    mods, _ = build(case["reqs"], case["shape"])
    top = mods[-1]
    imp(case["target"]).compile(top)
    pkg = h.to_proto(top)
    return {"status": "ok", "fails": pkgcheck.check_package(pkg), "feats": sorted(pkgcheck.pkg_features(pkg)) + ["pdk_" + case["target"]],
            "hash": env.canon_hash(pkg.SerializeToString(deterministic=True).hex()), "name": "compiled:" + case["target"]}


# ---------------------------------------------------------------------------


def nontrivial(case):
    rq = case["reqs"]
    return (any("model" not in r.get("params", {}) for r in rq) or any(set(r.get("params", {})) & {"w", "l", "nf", "mult"} for r in rq)
            or case["shape"]["depth"] > 1 or case.get("twice") or len(case["pdks"]) > 1 or case["how"] != "direct")


def record(res, case, v):
    if par.is_exc(v):
        res.harness_error("%s %s %s" % (v[1], v[2], v[3][-800:]))
        return
    for n in v.get("notes", []):
        res.notes[n] += 1
    if v.get("rejected"):
        res.reject(v["rejected"])
        res.evaluations += 1
        return
    for sig, detail in v["fails"]:
        res.fail(sig, case, detail)
    feats = ["pdk_" + case["target"], "how_" + case["how"], "depth%d" % case["shape"]["depth"]] + ["prim_" + r["prim"] for r in case["reqs"]]
    if case.get("as_list"):
        feats.append("compile_source_is_a_list")
    if case.get("set_default") and case["how"] == "default" and len(case["pdks"]) > 1:
        feats.append("explicit_default_among_several_pdks" + ("_after_failed_compile_elsewhere" if case.get("failed_other_first") else ""))
    if case.get("set_default") and case["how"] in ("name", "module") and len(case["pdks"]) > 1:
        feats.append("targeted_compile_while_another_pdk_is_default")
    if case.get("twice"):
        feats.append("compile_twice")
    if len(case["pdks"]) > 1:
        feats.append("several_pdks_registered")
    res.case(case, nontrivial(case), feats)


def shard(idx, n, tier):
    env.setup_paths(pdks=True)
    import hdl21  # noqa
    par.server()
    res = core.Result()
    tabs = {}
    for p in PDKS:
        t = par.pristine(lambda_tables, p)
        if par.is_exc(t):
            res.harness_error("tables(%s): %s %s" % (p, t[1], t[2]))
            return res
        tabs[p] = t
        if idx == 0:
            for u in t["unjoined"]:
                res.notes["row_not_asserted:%s:%s" % (p, u)] += 1
    # (a)
    for k, case in enumerate(table_cases(tabs)):
        if k % n != idx:
            continue
        record(res, case, par.pristine(scenario, case))
    res.notes["enumerated_table_cases"] += res.evaluations
    # (c)
    cells = par.pristine(logic_cells, LIBS)
    if par.is_exc(cells):
        res.harness_error("logic cells: %s %s" % (cells[1], cells[2]))
    else:
        mine = [c for k, c in enumerate(cells) if k % n == idx]
        if tier != "thorough":
            mine = mine  # all cells also in the quick tier: each costs about a millisecond
        for i in range(0, len(mine), 150):
            r = par.pristine(cells_batch, mine[i:i + 150], timeout=900)
            if par.is_exc(r):
                res.harness_error("cells batch: %s %s %s" % (r[1], r[2], r[3][-500:]))
            else:
                res.merge(r)
    for k, lib in enumerate(LIBS):
        if k % n == idx:
            r = par.pristine(library_whole, lib, timeout=900)
            if par.is_exc(r):
                res.harness_error("library %s: %s %s %s" % (lib, r[1], r[2], r[3][-500:]))
            else:
                res.merge(r)
    # (b)
    import hypothesis
    from hypothesis import given, settings, HealthCheck, Phase, strategies as st
    nex = (16000 if tier == "thorough" else 640) // n

    @st.composite
    def cases(draw):
        target = draw(st.sampled_from(["sample", "sky130", "sky130", "gf180", "gf180", "asap7"]))
        others = draw(st.lists(st.sampled_from([p for p in PDKS if p != target]), max_size=2, unique=True)) if draw(st.integers(0, 3)) == 0 else []
        t = tabs[target]
        nreq = draw(st.integers(1, 6))
        reqs = []
        for _ in range(nreq):
            kind = draw(st.integers(0, 9))
            size = dict(draw(st.sampled_from(SIZES[:4])))
            for kk in list(size):
                if draw(st.booleans()):
                    size[kk] = {"t": "pref", "v": [str(draw(st.integers(1, 9999))), draw(st.sampled_from([-9, -6, -3]))]}
            mu = dict(draw(st.sampled_from(MULTS)))
            if target in ("sky130", "gf180") and kind <= 4:
                r = draw(st.sampled_from(t["mos"]))
                if r["ports"] != 4:
                    r = t["mos"][0]
                p = {"model": r["key"]}; p.update(size); p.update(mu)
                reqs.append({"prim": "Mos", "params": p})
            elif target in ("sky130", "gf180") and kind <= 7:
                cls = draw(st.sampled_from(["res", "cap", "diode", "bjt"]))
                rows = [r for r in t[cls]]
                r = draw(st.sampled_from(rows))
                prim = {"res": {2: "PhysicalResistor", 3: "ThreeTerminalResistor"}, "cap": {2: "PhysicalCapacitor", 3: "ThreeTerminalCapacitor"},
                        "diode": {2: "Diode"}, "bjt": {3: "Bipolar"}}[cls].get(r["ports"])
                if prim is None:
                    continue
                p = {"model": r["key"]}
                if cls != "bjt":
                    p.update(size)
                reqs.append({"prim": prim, "params": p})
            else:
                if target == "asap7":
                    p = {"tp": draw(st.sampled_from(TPS)), "vth": draw(st.sampled_from(["STD", "LOW"]))}
                elif target == "sample":
                    p = {"tp": draw(st.sampled_from(TPS))}
                else:
                    rows = [r for r in t["mos"] if r["ports"] == 4]
                    # only unambiguous triples
                    r = draw(st.sampled_from(rows))
                    same = [x for x in rows if (x["tp"], x["fam"], x.get("vth")) == (r["tp"], r["fam"], r.get("vth"))]
                    p = {"tp": r["tp"], "family": r["fam"]}
                    if r.get("vth"):
                        p["vth"] = r["vth"]
                    if target == "gf180" and len(same) > 1:
                        p = {"model": r["key"]}
                p.update(size); p.update(mu)
                reqs.append({"prim": "Mos", "params": p})
        if not reqs:
            reqs = [{"prim": "Mos", "params": {"tp": "NMOS", "family": "CORE"} if target != "asap7" else {"tp": "NMOS"}}]
        depth = draw(st.integers(1, 3))
        levels = [draw(st.integers(0, depth - 1)) for _ in reqs]
        how = draw(st.sampled_from(["direct", "direct", "name", "module", "default"]))
        return {"pdks": [target] + others, "target": target, "how": how, "twice": draw(st.booleans()), "reqs": reqs, "pre_walk": draw(st.booleans()),
                "as_list": draw(st.sampled_from([0, 0, 1, 2, 3])),
                "set_default": draw(st.sampled_from([None, "name", "module"])), "failed_other_first": draw(st.booleans()),
                "shape": {"depth": depth, "levels": levels, "tie": draw(st.booleans())}}

    @hypothesis.seed(env.subseed(PID, idx))
    @settings(max_examples=max(1, nex), database=None, deadline=None, derandomize=False,
              suppress_health_check=list(HealthCheck), phases=[Phase.generate], report_multiple_bugs=False)
    @given(cases())
    def run(case):
        record(res, case, par.pristine(scenario, case))

    run()
    return res


def lambda_tables(p):
    imp(p)
    return tables(p)


def replay(case):
    if "library" in case:
        r = par.in_child(library_whole, case["library"])
        if par.is_exc(r):
            raise RuntimeError(r[2])
        return [(sig, lst[0]["detail"]) for sig, lst in r.failures.items()]
    if "cell" in case:
        lib, name = case["cell"].rsplit(".", 1)
        r = par.in_child(cells_batch, [(lib, name)])
        if par.is_exc(r):
            raise RuntimeError(r[2])
        return [(sig, lst[0]["detail"]) for sig, lst in r.failures.items()]
    v = par.in_child(scenario, case)
    if par.is_exc(v):
        raise RuntimeError("%s %s" % (v[1], v[2]))
    return [tuple(f) for f in v["fails"]]


def main(tier):
    t0 = time.time()
    env.setup_paths(pdks=True)
    import hdl21  # noqa
    res = par.run_shards(shard, extra=(tier,))
    return core.finish(PID, LEVEL, tier, res, RULE, ASSUME, replay, t0, exhaustive=True, min_nontrivial=200,
                       extra={"exhaustive_part": "(a) device-table sweep and (c) logic-cell sweep are complete; (b) is sampled"})
