"""C03 - Indexing and concatenation follow Python sequence semantics.

Oracle: Python's own list indexing on the list of (signal, bit) pairs a parent expression denotes.
(a) exhaustive box over a Signal parent; (b) Hypothesis: same index space on nested parents
(slices, concats, port references, bundle references, depth <= 3)."""
import time, itertools, json
from .. import env, core, par, pkgread

PID = "C03"
LEVEL = "exploration"
RULE = ("(a) enumerated: parent Signal width w in 1..W (W=6 quick, 8 thorough), every int index in [-2W,2W] and every "
        "slice(start,stop,step) with start,stop in [-2W,2W] or None and step in {None,+-1..+-W}; (b) Hypothesis: the same "
        "index space applied to generated parent expressions of depth <=3 over signals, slices, concats, port references (to ports of "
        "plain instances and to broadcast-connected ports of instance arrays) and bundle references. Each index is built, its width queried, and the expression connected to an external-module port, "
        "elaborated and exported; the exported bits are compared with Python list indexing; selections of >= 2 bits are also wired "
        "element-wise to an instance array (1-bit and 2-bit elements), whose elements must receive the selected bits in order. Non-trivial = anything but a plain "
        "in-range non-negative unit-step slice of a Signal; distinct by (parent, index) text.")
ASSUME = ["Python list indexing is the oracle", "acceptance is required only for in-range int indices and non-empty unit-step "
          "ranges with explicit bounds in [-w,w]; strided or out-of-range-bound slices may be rejected, but if accepted must "
          "select what Python selects", "widths of slices of bundle references are only queried after elaboration (port-reference parents are tried both ways)",
          "late sizing (a Signal's width assigned after it was concatenated) is generated for concatenations of whole signals only"]

_H = {}


def H():
    if not _H:
        env.setup_paths()
        import hdl21 as h
        _H["h"] = h
    return _H


def sl(idx):
    return idx if isinstance(idx, int) else slice(*idx)


# -- reference -------------------------------------------------------------------


def ref_bits(e, widths):
    """Python meaning of a parent expression: list of (signal name, bit)."""
    t = e[0]
    if t == "sig":
        return [(e[1], k) for k in range(widths[e[1]])]
    if t == "slice":
        base = ref_bits(e[1], widths)
        i = sl(e[2])
        return [base[i]] if isinstance(i, int) else base[i]
    if t == "cat":
        out = []
        for p in e[1]:
            out.extend(ref_bits(p, widths))
        return out
    if t in ("pref", "aref"):  # port `a` of a helper instance (aref: of an array of three, broadcast) connected to signal e[1]
        return [(e[1], k) for k in range(widths[e[1]])]
    if t == "bref":  # leaf e[2] of bundle instance e[1]
        return [("%s_%s" % (e[1], e[2]), k) for k in range(widths["%s_%s" % (e[1], e[2])])]
    raise ValueError(t)


def classify(w, idx):
    """-> ("int_ok"|"int_bad"|"must_accept"|"may_reject"|"empty", expected positions)"""
    base = list(range(w))
    if isinstance(idx, int):
        if -w <= idx < w:
            return "int_ok", [base[idx]]
        return "int_bad", None
    s = slice(*idx)
    if s.step == 0:
        return "empty", None
    exp = base[s]
    if not exp:
        return "empty", None
    inrange = all(b is None or -w <= b <= w for b in (s.start, s.stop))
    if inrange and s.step in (None, 1):
        return "must_accept", exp
    return "may_reject", exp


# -- building ----------------------------------------------------------------------


class Ctx:
    """One fresh parent module per case: signals, a helper instance for port refs, a bundle instance."""

    def __init__(self, widths):
        h = H()["h"]
        self.h = h
        self.m = h.Module(name="P")
        self.widths = widths
        self.objs = {}
        self.keep = []
        self.bundle = None
        for name, w in widths.items():
            if "_" in name:
                continue
            self.objs[name] = self.m.add(h.Signal(name=name, width=w))
        leaves = {n: w for n, w in widths.items() if "_" in n}
        if leaves:
            B = h.Bundle(name="B")
            subs = {}
            for n, w in leaves.items():
                path = n.split("_")[1:]
                if len(path) == 1:
                    B.add(h.Signal(name=path[0], width=w))
                else:  # g_n_width: member `width` of sub-bundle `n` (members named like attributes of the reference objects)
                    subs.setdefault(path[0], h.Bundle(name="Sub_" + path[0])).add(h.Signal(name=path[1], width=w))
            for sn, S in subs.items():
                B.add(S(), name=sn)
            bname = next(iter(leaves)).split("_", 1)[0]
            self.bundle = self.m.add(B(), name=bname)
        self.helpers = {}

    def helper(self, signame):
        h = self.h
        if signame not in self.helpers:
            w = self.widths[signame]
            X = h.ExternalModule(name="H%d" % w, port_list=[h.Inout(name="a", width=w)], domain="verif")
            inst = self.m.add(X()(a=self.objs[signame]), name="h_" + signame)
            self.helpers[signame] = inst
        return self.helpers[signame]

    def helper_array(self, signame):
        h = self.h
        key = "arr:" + signame
        if key not in self.helpers:
            w = self.widths[signame]
            X = h.ExternalModule(name="HA%d" % w, port_list=[h.Inout(name="a", width=w)], domain="verif")
            self.helpers[key] = self.m.add(3 * X()(a=self.objs[signame]), name="ha_" + signame)
        return self.helpers[key]

    def build(self, e):
        h = self.h
        t = e[0]
        if t == "aref":
            return self.helper_array(e[1]).a
        if t == "sig":
            return self.objs[e[1]]
        if t == "slice":
            return self.build(e[1])[sl(e[2])]
        if t == "cat":
            return h.Concat(*[self.build(p) for p in e[1]])
        if t == "pref":
            return self.helper(e[1]).a
        if t == "bref":
            o = self.bundle
            for seg in e[2].split("_"):
                o = getattr(o, seg)
            return o
        raise ValueError(t)


def strided_parent(e):
    if e[0] == "slice":
        i = e[2]
        return (not isinstance(i, int) and i[2] not in (None, 1)) or strided_parent(e[1])
    if e[0] == "cat":
        return any(strided_parent(p) for p in e[1])
    return False


def has_ref(e):
    return e[0] in ("pref", "bref", "aref") or (e[0] == "slice" and has_ref(e[1])) or (e[0] == "cat" and any(has_ref(p) for p in e[1]))


def has_bref(e):
    return e[0] == "bref" or (e[0] == "slice" and has_bref(e[1])) or (e[0] == "cat" and any(has_bref(p) for p in e[1]))


def export_bit_on_primitive(widths, expr):
    """A one-bit selection connected to a terminal of an ideal resistor (a primitive sink instead of an external module)."""
    h = H()["h"]
    c = Ctx(widths)
    gnd = c.m.add(h.Signal(name="zz_gnd"))
    c.m.add(h.R(r=1)(p=c.build(expr), n=gnd), name="dut")
    pkg = h.to_proto(c.m)
    mod = pkg.modules[-1]
    sigw = {s.name: s.width for s in mod.signals}
    for inst in mod.instances:
        if inst.name == "dut":
            for cn in inst.connections:
                if cn.portname == "p":
                    return list(reversed(pkgread.expand_target(cn.target, sigw)))
    raise RuntimeError("dut.p not exported")


def export_bits(widths, expr, port_width, probes=(), early=False):
    """Connect expr to a port of port_width, export, and read the bits back (LSB first).
    probes: expressions that are built and asked for their width first, in the same module, any error being caught - a designer
    trying an index out at the prompt before settling on the right one."""
    h = H()["h"]
    c = Ctx(widths)
    for pe in probes:
        try:
            if pe[0] == "badcat":
                h.Concat(c.build(pe[1]), None)  # a concatenation that is refused because of a LATER part
            else:
                c.build(pe).width
        except Exception:
            pass
    X = h.ExternalModule(name="T%d" % port_width, port_list=[h.Input(name="a", width=port_width)], domain="verif")
    conn = c.build(expr)
    if early:
        # the designer looks at the selection's width before using it (whatever that says or raises)
        try:
            conn.width
        except Exception:
            pass
    c.m.add(X()(a=conn), name="dut")
    pkg = h.to_proto(c.m)
    mod = pkg.modules[-1]
    sigw = {s.name: s.width for s in mod.signals}
    for inst in mod.instances:
        if inst.name == "dut":
            bits = pkgread.expand_target(inst.connections[0].target, sigw)  # raises PkgError if outside a signal
            return list(reversed(bits))
    raise RuntimeError("dut not exported")


def export_bits_array(widths, expr, elem_width, n):
    """Connect expr (n * elem_width bits) to an array of n elements with a port of elem_width: element k must receive bits
    [k*elem_width, (k+1)*elem_width) of the selection. -> bits LSB first, elements in order"""
    h = H()["h"]
    c = Ctx(widths)
    X = h.ExternalModule(name="E%d" % elem_width, port_list=[h.Input(name="a", width=elem_width)], domain="verif")
    conn = c.build(expr)
    c.m.add(n * X()(a=conn), name="dut")
    pkg = h.to_proto(c.m)
    mod = pkg.modules[-1]
    sigw = {s.name: s.width for s in mod.signals}
    byname = {inst.name: inst for inst in mod.instances}
    out = []
    for k in range(n):
        inst = byname.get("dut_%d" % k)
        if inst is None:
            raise RuntimeError("array element dut_%d not exported (have %s)" % (k, sorted(byname)))
        out += list(reversed(pkgread.expand_target(inst.connections[0].target, sigw)))
    return out


def check_case(case):
    """case = {"widths": {sig: w}, "parent": Expr, "index": int | [a,b,c]} -> [(sig, detail)], info"""
    widths, parent, idx = case["widths"], case["parent"], case["index"]
    out = []
    pbits = ref_bits(parent, widths)
    w = len(pbits)
    kind, pos = classify(w, idx)
    if strided_parent(parent) and kind in ("int_ok", "must_accept"):
        kind = "may_reject"  # acceptance is only required over unit-step parents
    expected = None if pos is None else [pbits[p] for p in pos]
    expr = ["slice", parent, idx]
    label = "%s of width %d indexed %r" % (parent[0], w, idx)
    refp = has_ref(parent)
    # stage 1+2: build and query width (only on non-reference parents before elaboration)
    reported = None
    rejected_at = None
    if not refp:
        try:
            c = Ctx(widths)
            obj = c.build(expr)
            reported = obj.width
            if not isinstance(reported, int):
                out.append(("width_type", "%s: width is %r" % (label, reported)))
                reported = None
        except Exception as e:
            rejected_at = "width:%s" % type(e).__name__
            # a refusal is final: the same object, asked again or used in a design, is refused again
            try:
                again = obj.width if "obj" in dir() else None
                if isinstance(again, int):
                    out.append(("refused_index_accepted_on_second_ask:%s" % kind, "%s: the first width query raised %s, the second returned %r" % (label, type(e).__name__, again)))
            except Exception:
                pass
            if "obj" in dir():
                try:
                    h = H()["h"]
                    X = h.ExternalModule(name="T1", port_list=[h.Input(name="a", width=1)], domain="verif")
                    c.m.add(X()(a=obj), name="dut")
                    pkg = h.to_proto(c.m)
                    out.append(("refused_index_exported_later:%s" % kind, "%s: its width query raised %s, yet a design using that very object was exported" % (label, type(e).__name__)))
                except Exception:
                    pass
    if rejected_at is None and reported is not None and expected is not None and reported != len(expected):
        out.append(("wrong_width:%s" % kind, "%s reports width %d, Python selects %d bits" % (label, reported, len(expected))))
    if rejected_at is None and reported is not None and expected is None and kind != "int_bad" and False:
        pass
    # stage 3: export
    trials = []
    if rejected_at is None:
        if expected is not None:
            trials.append(len(expected))
            if reported is not None and reported >= 1 and reported != len(expected):
                trials.append(reported)
        else:
            trials.append(reported if (reported is not None and reported >= 1) else 1)
            if refp:
                trials += [2, 3]
    accepted = False
    if refp and not has_bref(parent):
        # port-reference parents: each trial also with the selection's width looked at before it is used
        for pw in trials:
            try:
                gote = export_bits(widths, expr, pw, early=True)
            except pkgread.PkgError as e:
                out.append(("bit_outside_signal:width_read_first:%s" % kind, "%s (width asked for before use) exported a connection naming a bit outside its signal: %s" % (label, e)))
                continue
            except Exception:
                continue
            if expected is None:
                out.append(("accepted_invalid:width_read_first:%s" % kind, "%s (width asked for before use) was exported (as %s) though Python selects nothing / raises IndexError" % (label, gote)))
            elif gote != expected:
                out.append(("wrong_bits:width_read_first:%s:%s" % (kind, parent[0]), "%s (width asked for before use) exported bits %s, Python selects %s" % (label, gote, expected)))
    for pw in trials:
        try:
            got = export_bits(widths, expr, pw)
        except pkgread.PkgError as e:
            out.append(("bit_outside_signal:%s" % kind, "%s exported a connection naming a bit outside its signal: %s" % (label, e)))
            accepted = True
            continue
        except Exception as e:
            rejected_at = rejected_at or "export:%s" % type(e).__name__
            continue
        accepted = True
        if expected is None:
            out.append(("accepted_invalid:%s" % kind, "%s was exported (as %s) though Python selects nothing / raises IndexError" % (label, got)))
        elif got != expected:
            out.append(("wrong_bits:%s:%s" % (kind, parent[0]), "%s exported bits %s, Python selects %s" % (label, got, expected)))
        if expected is not None and got == expected and pw == len(expected) and not strided_parent(parent):
            # rejected (or accepted) trial indices on the same parent, tried first, must leave no trace
            probes = [["slice", parent, w + 3], ["slice", parent, [w + 1, w + 1, None]], ["slice", parent, -(w + 2)], ["slice", parent, 0], ["badcat", parent]]
            if not isinstance(idx, int):
                # ... and neighbouring spellings of the index itself (an omitted bound written out or the other way round, a zero
                # step), most of which select something else or nothing: whatever they give, the index proper means what it means
                a_, b_, c_ = idx
                order = lambda vs: sorted(vs, key=lambda v: (v is None, v or 0))  # noqa: E731
                for a2 in order({a_, None if a_ == 0 else a_, 0 if a_ is None else a_}):
                    for b2 in order({b_, None if b_ in (w, 0) else b_, w if b_ is None else b_}):
                        for c2 in order({c_, None if c_ == 1 else c_, 1 if c_ is None else c_, 0}):
                            if [a2, b2, c2] != [a_, b_, c_]:
                                probes.append(["slice", parent, [a2, b2, c2]])
            try:
                gotp = export_bits(widths, expr, pw, probes=probes)
                if gotp != expected:
                    out.append(("probing_changes_bits:%s" % parent[0], "%s after trial indices on the same parent exported %s, Python selects %s" % (label, gotp, expected)))
            except pkgread.PkgError as e:
                out.append(("bit_outside_signal:after_probe", "%s after trial indices exported a bit outside its signal: %s" % (label, e)))
            except Exception as e:
                out.append(("probing_breaks_elaboration:%s:%s" % (parent[0], type(e).__name__), "%s exports alone, but after out-of-range / empty trial indices on the same parent "
                            "(errors caught) elaboration raised %s: %s" % (label, type(e).__name__, str(e)[-200:])))
        if expected is not None and got == expected and pw == 1 and len(expected) == 1:
            # the same one-bit selection on a primitive's terminal
            try:
                gotr = export_bit_on_primitive(widths, expr)
                if gotr != expected:
                    out.append(("wrong_bits_on_primitive:%s" % parent[0], "%s on a resistor terminal exported %s, Python selects %s" % (label, gotr, expected)))
            except pkgread.PkgError as e:
                out.append(("bit_outside_signal:primitive", "%s on a resistor terminal exported a bit outside its signal: %s" % (label, e)))
            except Exception as e:
                out.append(("rejected_on_primitive_sink:%s:%s" % (parent[0], type(e).__name__), "%s is exported on an external module's port, but on a resistor terminal it raised %s: %s" % (
                    label, type(e).__name__, str(e)[-200:])))
        if expected is None or got != expected:
            pass
        elif pw == len(expected) and pw >= 2:
            # the same selection handed out element-wise by an instance array: resolution down to signal-level bits must
            # still give element k the k-th group of selected bits
            for ew in ([1, 2] if pw % 2 == 0 and pw > 2 else [1]):
                try:
                    gota = export_bits_array(widths, expr, ew, pw // ew)
                except pkgread.PkgError as e:
                    out.append(("bit_outside_signal:array:%s" % kind, "%s wired to an array of %d exported a bit outside its signal: %s" % (label, pw // ew, e)))
                    continue
                except Exception:
                    continue  # acceptance by arrays is not part of this property
                if gota != expected:
                    out.append(("wrong_bits_via_array:%s:%s" % (kind, parent[0]), "%s wired to an array of %d x %d-bit elements gives them bits %s, Python selects %s" % (
                        label, pw // ew, ew, gota, expected)))
    if kind in ("int_ok", "must_accept") and not accepted:
        out.append(("rejected_valid:%s:%s" % (kind, parent[0] if refp else "plain"),
                    "%s is in range (unit step) but was rejected (%s)" % (label, rejected_at)))
    return out, {"kind": kind, "accepted": accepted, "rejected_at": rejected_at}


def check_late(case):
    """{"late": true, "widths", "parent": concatenation tree over whole signals, "resize": {sig: new width}, "read_first": bool}:
    a bus declared first and sized later. The concatenation (its width possibly asked for before the resize) is the list
    concatenation of its parts as they are afterwards: reported width and exported bits."""
    h = H()["h"]
    fails = []
    c = Ctx(case["widths"])
    root = c.build(case["parent"])
    nodes = []

    def walk(obj, e):
        if e[0] == "cat":
            nodes.append((obj, e))
            for po, pe in zip(obj.parts, e[1]):
                walk(po, pe)
    walk(root, case["parent"])
    if case.get("read_first"):
        for obj, _ in nodes:
            obj.width
    neww = dict(case["widths"], **case["resize"])
    for name, w in case["resize"].items():
        c.objs[name].width = w
    for obj, e in nodes:
        want = len(ref_bits(e, neww))
        try:
            got = obj.width
        except Exception as ex:
            fails.append(("late_sizing:width_raises:%s" % type(ex).__name__, "width of %s after resizing %s raised %r" % (e, case["resize"], ex)))
            continue
        if got != want:
            fails.append(("late_sizing:concat_width_stale", "Concat %s reports width %d after its parts were resized to %s; its parts hold %d bits" % (json.dumps(e), got, case["resize"], want)))
    if not fails:
        want = ref_bits(case["parent"], neww)
        try:
            X = h.ExternalModule(name="TL%d" % len(want), port_list=[h.Input(name="a", width=len(want))], domain="verif")
            c.m.add(X()(a=root), name="dut")
            pkg = h.to_proto(c.m)
            mod = pkg.modules[-1]
            sigw = {sg.name: sg.width for sg in mod.signals}
            inst = [i for i in mod.instances if i.name == "dut"][0]
            got = [tuple(b) for b in reversed(pkgread.expand_target(inst.connections[0].target, sigw))]
            if got != [tuple(b) for b in want]:
                fails.append(("late_sizing:wrong_bits", "concatenation %s with parts resized to %s exported %s, list concatenation gives %s" % (json.dumps(case["parent"]), case["resize"], got, want)))
        except Exception as ex:
            fails.append(("late_sizing:export_raises:%s" % type(ex).__name__, "concatenation %s with parts resized to %s: %s" % (json.dumps(case["parent"]), case["resize"], str(ex)[-200:])))
    return fails, {"kind": "late_sizing", "accepted": True}


def nontrivial(case):
    if case.get("late"):
        return True
    if case["parent"][0] != "sig":
        return True
    idx = case["index"]
    if isinstance(idx, int):
        return True
    w = case["widths"][case["parent"][1]]
    a, b, c = idx
    return not (c in (None, 1) and a is not None and b is not None and 0 <= a < b <= w)


def _eval(res, case):
    try:
        fails, info = check_late(case) if case.get("late") else check_case(case)
    except Exception:
        import traceback
        res.harness_error("check crashed on %s: %s" % (json.dumps(case)[:300], traceback.format_exc()[-1500:]))
        return
    for sig, detail in fails:
        res.fail(sig, case, detail)
    feats = [info["kind"], "parent_" + case["parent"][0], "accepted" if info["accepted"] else "rejected"]
    if strided_parent(case["parent"]):
        feats.append("strided_parent")
    if info["kind"] == "may_reject":
        feats.append("may_reject_" + ("accepted" if info["accepted"] else "rejected"))
    if case.get("late"):
        feats.append("width_read_before_resize" if case.get("read_first") else "width_first_read_after_resize")
    res.case(case, nontrivial(case), feats, key=json.dumps([case["parent"], case.get("index"), case["widths"], case.get("resize"), case.get("read_first")], sort_keys=True))


def box_cases(W):
    rng = list(range(-2 * W, 2 * W + 1))
    for w in range(1, W + 1):
        for i in rng:
            yield {"widths": {"s": w}, "parent": ["sig", "s"], "index": i}
        steps = [None] + [k for k in range(-W, W + 1) if k != 0]
        for a in [None] + rng:
            for b in [None] + rng:
                for c in steps:
                    yield {"widths": {"s": w}, "parent": ["sig", "s"], "index": [a, b, c]}


def batch_run(cases):
    H()
    res = core.Result()
    for c in cases:
        _eval(res, c)
    return res


def shard(idx, n, tier):
    H()
    par.server()
    res = core.Result()
    W = 8 if tier == "thorough" else 6
    mine = [c for k, c in enumerate(box_cases(W)) if k % n == idx]
    B = 400
    for i in range(0, len(mine), B):
        r = par.pristine(batch_run, mine[i:i + B], timeout=600)
        if par.is_exc(r):
            res.harness_error("batch crashed: %s %s" % (r[1], r[3][-800:]))
        else:
            res.merge(r)
    res.notes["enumerated_cases"] += len(mine)

    import hypothesis
    from hypothesis import given, settings, strategies as st, HealthCheck, Phase
    nex = (48000 if tier == "thorough" else 4800) // n
    WMAX = 12

    @st.composite
    def nested(draw):
        widths = {"s": draw(st.integers(1, WMAX)), "t": draw(st.integers(1, 6)), "u": draw(st.integers(1, 4)),
                  "g_x": draw(st.integers(1, 6)), "g_y": draw(st.integers(1, 3)), "g_n_width": draw(st.integers(1, 5)), "g_n_name": draw(st.integers(1, 3))}

        def parent(depth):
            k = draw(st.integers(0, 9))
            if depth >= 3 or k <= 1:
                return ["sig", draw(st.sampled_from(["s", "t", "u"]))]
            if k == 2:
                return [draw(st.sampled_from(["pref", "pref", "aref"])), draw(st.sampled_from(["s", "t", "u"]))]
            if k == 3:
                return ["bref", "g", draw(st.sampled_from(["x", "y", "n_width", "n_name"]))]
            if k <= 6:
                parts = [parent(depth + 1) for _ in range(draw(st.integers(1, 3)))]
                return ["cat", parts]
            base = parent(depth + 1)
            bw = len(ref_bits(base, widths))
            if not has_ref(base) and draw(st.integers(0, 9)) < 3:
                # strided / reversed parent slice (may be rejected; if accepted it must mean what Python means)
                for _ in range(4):
                    a = draw(st.one_of(st.none(), st.integers(-bw, bw)))
                    b = draw(st.one_of(st.none(), st.integers(-bw, bw)))
                    c = draw(st.sampled_from([2, 3, -1, -2, -3]))
                    if list(range(bw))[slice(a, b, c)]:
                        return ["slice", base, [a, b, c]]
            # a valid unit-step sub-range (reference parents: explicit non-negative bounds only)
            a = draw(st.integers(0, bw - 1))
            b = draw(st.integers(a + 1, bw))
            if has_ref(base) or draw(st.booleans()):
                return ["slice", base, [a, b, None]]
            form = draw(st.integers(0, 3))
            if form == 0 and b - a == 1:
                return ["slice", base, a - bw if draw(st.booleans()) else a]
            if form == 1:
                return ["slice", base, [a - bw, b - bw if b < bw else None, None]]
            if form == 2:
                return ["slice", base, [a if a else None, b if b < bw else None, 1]]
            return ["slice", base, [a, b, None]]

        p = parent(0)
        pw = len(ref_bits(p, widths))
        lim = 2 * min(pw, WMAX)
        bound = st.one_of(st.none(), st.integers(-lim - 1, lim + 1))
        mode = draw(st.integers(0, 9))
        if mode <= 2:
            idx = draw(st.integers(-lim - 1, lim + 1))
        elif mode <= 6:
            idx = [draw(bound), draw(bound), draw(st.sampled_from([None, 1]))]
        else:
            idx = [draw(bound), draw(bound), draw(st.sampled_from([None, 1, 2, 3, -1, -2, -3, pw, -pw]))]
        return {"widths": widths, "parent": p, "index": idx}

    @st.composite
    def late(draw):
        widths = {"s": draw(st.integers(1, 6)), "t": draw(st.integers(1, 6)), "u": draw(st.integers(1, 4))}

        def tree(depth):
            if depth >= 2 or (depth > 0 and draw(st.integers(0, 2)) > 0):
                return ["sig", draw(st.sampled_from(["s", "t", "u"]))]
            return ["cat", [tree(depth + 1) for _ in range(draw(st.integers(1, 3)))]]
        p = tree(0)
        used = sorted({b[0] for b in ref_bits(p, widths)})
        names = draw(st.lists(st.sampled_from(used), min_size=1, max_size=2, unique=True))
        resize = {nm: draw(st.integers(1, 8).filter(lambda w, nm=nm: w != widths[nm])) for nm in names}
        return {"late": True, "widths": widths, "parent": p, "resize": resize, "read_first": draw(st.integers(0, 3)) > 0}

    batch = []

    def flush():
        if batch:
            r = par.pristine(batch_run, list(batch), timeout=600)
            if par.is_exc(r):
                res.harness_error("batch crashed: %s %s" % (r[1], r[3][-800:]))
            else:
                res.merge(r)
            batch.clear()

    @hypothesis.seed(env.subseed(PID, idx))
    @settings(max_examples=nex, database=None, deadline=None, derandomize=False,
              suppress_health_check=list(HealthCheck), phases=[Phase.generate], report_multiple_bugs=False)
    @given(st.one_of(nested(), nested(), nested(), nested(), nested(), nested(), nested(), nested(), nested(), late()))
    def run(case):
        batch.append(case)
        if len(batch) >= 300:
            flush()

    run()
    flush()
    return res


def replay(case):
    r = par.in_child(lambda c: (check_late(c) if c.get("late") else check_case(c))[0], case)
    if par.is_exc(r):
        raise RuntimeError(r[2])
    return r


def main(tier):
    t0 = time.time()
    H()
    res = par.run_shards(shard, extra=(tier,))
    return core.finish(PID, LEVEL, tier, res, RULE, ASSUME, replay, t0, exhaustive=True, min_nontrivial=1000,
                       extra={"exhaustive_part": "(a) the Signal-parent box is enumerated completely; (b) nested parents are sampled"})
