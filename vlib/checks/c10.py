"""C10 - Bundle ports flatten to the documented names, directions and visibility.

Reference flattener (from the statement) vs the ports / signals of the exported module.
(a) enumerated family of bundle-definition trees (depth <=2, fan-out <=2);
(b) Hypothesis: depth <=3, fan-out <=3, widths <=8, plus designs connecting bundle ports (C01 oracle)."""
import time, itertools, json
from .. import env, core, par, model, gen, design
from ..build import Builder

PID = "C10"
LEVEL = "exploration"
RULE = ("(a) enumerated: bundle definition trees of depth <=2 and fan-out <=2 with every assignment of the six leaf kinds "
        "(input, output, inout, undirected port, role-directed, inout or undirected port that carries roles as well, plain, plain with a direction attribute but no port visibility), roles "
        "given as the role set's own objects or as fresh equal Role objects, leaf width in {1,3}, flip state at each level written "
        "as constructor flag, flipped(), double applications and `2 * B(flipped=..)`, role in {none, source, sink, unrelated}, port vs internal "
        "instantiation (quick: a fixed systematic sub-family; thorough: all); (b) Hypothesis: trees of depth <=3, fan-out <=3, "
        "widths <=8, and generated parent designs that connect bundle-port children through bundle instances, sub-bundle "
        "references and anonymous bundles (C01 oracle). Oracle: a reference flattener written from the statement, compared as a "
        "set of (name, width, direction) ports and (name, width) internal signals. Non-trivial = depth >=2 and at least one "
        "flip or role; distinct by canonical case text.")
ASSUME = ["when two member paths join to one flat name (leaf u_x beside sub-bundle u with leaf x) the statement fixes neither name: ports are "
          "then compared as multisets modulo trailing underscores, and exported names must be unique", "role-derived directions are not flipped (the statement flips only leaves declared as ports)",
          "a leaf that is both a port and role-carrying, and nameless Role() objects, are not generated",
          "port order is not part of the statement: ports are compared as a set"]

DIRMAP = {"in": "INPUT", "out": "OUTPUT", "inout": "INOUT", "port": "NONE",
          # declared as a bidirectional / undirected port and carrying roles too: "inouts and undirected leaves stay as they are"
          "inout_role_ab": "INOUT", "port_role_ab": "NONE"}
FLIP = {"INPUT": "OUTPUT", "OUTPUT": "INPUT", "INOUT": "INOUT", "NONE": "NONE"}


def ref_flatten(spec, binfo):
    """-> (ports set {(name,width,dir)}, signals set {(name,width)})"""
    name, bidx, port, flipped = binfo[0], binfo[1], binfo[2], binfo[3]
    role = binfo[4] if len(binfo) > 4 else None
    ports, sigs = [], []

    def walk(bidx, path, flips, inst_role):
        b = spec["bundles"][bidx]
        for lname, width, kind in b["sigs"]:
            full = name + "_" + "_".join(path + (lname,))
            if not port:
                sigs.append((full, width))
                continue
            if kind in DIRMAP:
                d = DIRMAP[kind]
                if flips % 2:
                    d = FLIP[d]
            elif kind in ("role_ab", "role_ba"):
                src, dst = ("A", "B") if kind == "role_ab" else ("B", "A")
                d = "OUTPUT" if inst_role == src else "INPUT" if inst_role == dst else "NONE"
            else:  # plain
                d = "NONE"
            ports.append((full, width, d))
        for sub in b["subs"]:
            srole = sub[4] if len(sub) > 4 else None
            walk(sub[1], path + (sub[0],), flips + (1 if sub[2] else 0), srole)

    walk(bidx, (), 1 if flipped else 0, role)
    return ports, sigs


PDIR = {0: "INPUT", 1: "OUTPUT", 2: "INOUT", 3: "NONE"}


def check_case(case):
    env.setup_paths()
    import hdl21 as h
    spec = {"cells": [], "bundles": case["bundles"], "top": 0,
            "modules": [{"name": "M", "sigs": [["keep", 1, "in"]], "bundles": [case["inst"]], "insts": [], "style": case.get("style", "proc")}]}
    lp, ls = ref_flatten(spec, case["inst"])
    _lists = {"ports": lp + [("keep", 1, "INPUT")], "sigs": ls}
    want_ports, want_sigs = set(_lists["ports"]), set(ls)
    try:
        m = Builder(spec).module(0)
        pkg = h.to_proto(m)
    except Exception as e:
        return [], {"rejected": "%s: %s" % (type(e).__name__, str(e)[-200:])}
    pm = pkg.modules[-1]
    sigw = {s.name: s.width for s in pm.signals}
    got_ports = {(p.signal, sigw.get(p.signal), PDIR[p.direction]) for p in pm.ports}
    pnames = {p.signal for p in pm.ports}
    got_sigs = {(s.name, s.width) for s in pm.signals if s.name not in pnames}
    out = []
    if len(pm.ports) != len(pnames):
        out.append(("duplicate_port", "exported module lists a port twice: %s" % [p.signal for p in pm.ports]))
    clash = len({t[0] for t in _lists["ports"]} | {t[0] for t in _lists["sigs"]}) != len(_lists["ports"]) + len(_lists["sigs"])
    if clash:
        # two member paths join to one flat name: the statement fixes the name of neither; Hdl21 may append underscores (or
        # raise). Compare as multisets, names modulo trailing underscores; exported names must still be unique.
        from collections import Counter
        norm = lambda t: (t[0].rstrip("_"),) + tuple(t[1:])
        wp, ws = Counter(norm(t) for t in _lists["ports"]), Counter(norm(t) for t in _lists["sigs"])
        gp, gs = Counter(norm(t) for t in got_ports), Counter(norm(t) for t in got_sigs)
        if len({p.signal for p in pm.ports}) != len(pm.ports) or len({s_.name for s_ in pm.signals}) != len(pm.signals):
            out.append(("duplicate_name_on_clash", "exported names are not unique: %s" % sorted(s_.name for s_ in pm.signals)))
        if wp != gp or ws != gs:
            out.append(("port_set_on_name_clash", "member paths joining to one name: expected (modulo trailing underscores) ports %s signals %s, exported ports %s signals %s" % (
                sorted(wp.elements()), sorted(ws.elements()), sorted(gp.elements()), sorted(gs.elements()))))
        return out, {}
    if got_ports != want_ports:
        miss = sorted(want_ports - got_ports)
        extra = sorted(got_ports - want_ports)
        kind = "port_set"
        if {(n, w) for n, w, _ in miss} == {(n, w) for n, w, _ in extra}:
            kind = "port_direction"
        elif {n for n, _, _ in miss} == {n for n, _, _ in extra}:
            kind = "port_width"
        out.append((kind, "ports differ: expected but missing %s; exported but unexpected %s" % (miss[:4], extra[:4])))
    if got_sigs != want_sigs:
        out.append(("internal_signals", "internal signals differ: expected %s, got %s" % (sorted(want_sigs)[:6], sorted(got_sigs)[:6])))
    return out, {}


def depth_of(spec_bundles, bidx):
    b = spec_bundles[bidx]
    return 1 + max([depth_of(spec_bundles, s[1]) for s in b["subs"]] or [0])


def has_flip_or_role(case):
    def walk(bidx):
        b = case["bundles"][bidx]
        return any(s[2] or (len(s) > 3 and s[3] not in ("ctor",) and s[3] != "c0f0") or (len(s) > 4 and s[4]) for s in b["subs"]) or any(walk(s[1]) for s in b["subs"])
    i = case["inst"]
    return bool(i[3]) or (len(i) > 4 and i[4] is not None) or walk(i[1])


def nontrivial(case):
    return depth_of(case["bundles"], case["inst"][1]) >= 2 and has_flip_or_role(case)


def feats(case):
    f = set()
    i = case["inst"]
    f.add("port" if i[2] else "internal")
    f.add("depth%d" % depth_of(case["bundles"], i[1]))
    if i[3]:
        f.add("top_flipped")
    if any("_" in s[0] for b in case["bundles"] for s in b["sigs"]):
        f.add("leaf_name_with_underscore")
    if any(len(s) > 3 and s[3] == "mult" for b in case["bundles"] for s in b["subs"]) or (len(i) > 5 and i[5] == "mult"):
        f.add("instance_by_multiplication")
    if any(b.get("roles") == "fresh" for b in case["bundles"]):
        f.add("roles_as_fresh_equal_objects")
    if any(s[2].startswith("plain_d") for b in case["bundles"] for s in b["sigs"]):
        f.add("leaf_direction_without_port_visibility")
    if len(i) > 4 and i[4]:
        f.add("top_role")
    for b in case["bundles"]:
        for s in b["sigs"]:
            f.add("leaf_" + s[2])
        for s in b["subs"]:
            if s[2]:
                f.add("sub_flipped")
            if len(s) > 3 and len(s[3]) == 4 and s[3][0] == "c" and int(s[3][3]) >= 2:
                f.add("double_flip_call")
            if len(s) > 4 and s[4]:
                f.add("sub_role")
    if len(i) > 5 and len(i[5]) == 4 and i[5][0] == "c" and int(i[5][3]) >= 2:
        f.add("double_flip_call")
    return sorted(f)


KINDS = ["in", "out", "inout", "port", "role_ab", "plain", "plain_din"]
FLIPS = [(False, "c0f0"), (True, "c1f0"), (True, "c0f1"), (False, "c1f1"), (False, "c0f2"), (True, "c1f2"), (True, "mult"), (False, "mult")]
ROLES = [None, "A", "B", "C"]


def box(full):
    """Enumerated family. Yields cases."""
    leafsets = [[k] for k in KINDS] + ([[a, b] for a in KINDS for b in KINDS] if full else [["in", "role_ab"], ["out", "plain"], ["role_ab", "port"], ["plain", "in"], ["inout", "out"]])
    flips = FLIPS if full else FLIPS[:4] + FLIPS[6:7]
    for width in ((1, 3) if full else (1,)):
        for tl in leafsets:
            for sl in leafsets if full else [[k] for k in KINDS] + [["role_ab", "in"], ["out", "plain"]]:
                for (sf, svia), srole, (tf, tvia), trole, port in itertools.product(flips, ROLES, flips, ROLES, (True, False)):
                    if not port and (trole or srole) and not full:
                        continue
                    rstyle = "fresh" if (len(tl) + len(sl) + int(sf) + int(tf)) % 2 else True
                    sub = {"name": "S", "roles": rstyle, "subs": [],
                           "sigs": [["xyzw"[i], width, k] for i, k in enumerate(sl)]}
                    top = {"name": "T", "roles": rstyle,
                           "sigs": [["xyzw"[i], width, k] for i, k in enumerate(tl)],
                           "subs": [["u", 0, sf, svia, srole]]}
                    yield {"bundles": [sub, top], "inst": ["b", 1, port, tf, trole, tvia]}


def batch_run(cases):
    res = core.Result()
    for c in cases:
        try:
            fails, info = check_case(c)
        except Exception:
            import traceback
            res.harness_error("crash on %s: %s" % (json.dumps(c)[:300], traceback.format_exc()[-1200:]))
            continue
        if "rejected" in info:
            # every generated tree is a valid bundle definition: "flattens to one scalar port per leaf" leaves no room for a refusal
            res.fail("valid_bundle_refused", c, "building / exporting a module with this bundle instance raised %s" % info["rejected"])
            res.case(c, nontrivial(c), feats(c))
            continue
        for sig, detail in fails:
            res.fail(sig, c, detail)
        res.case(c, nontrivial(c), feats(c))
    return res


def shard(idx, n, tier):
    env.setup_paths()
    import hdl21  # noqa
    par.server()
    res = core.Result()
    mine = [c for k, c in enumerate(box(tier == "thorough")) if k % n == idx]
    B = 1500
    for i in range(0, len(mine), B):
        r = par.pristine(batch_run, mine[i:i + B], timeout=900)
        if par.is_exc(r):
            res.harness_error("batch crashed: %s %s" % (r[1], r[3][-800:]))
        else:
            res.merge(r)
    res.notes["enumerated_cases"] += len(mine)

    import hypothesis
    from hypothesis import given, settings, strategies as st, HealthCheck, Phase
    nex = (32000 if tier == "thorough" else 3200) // n

    @st.composite
    def trees(draw):
        bundles = []
        nb = draw(st.integers(1, 4))
        for k in range(nb):
            nl = draw(st.integers(1, 3))
            # (leaf names that contain an underscore can join to the same flat name as a member of a sub-bundle: u_x beside u.x)
            lnames = draw(st.permutations(["x", "y", "z", "u_x", "v_y", "u_u_x"]))[:nl] if draw(st.integers(0, 3)) == 0 else "xyz"
            sigs = [[lnames[i], draw(st.integers(1, 8)), draw(st.sampled_from(KINDS + ["role_ba", "plain_dout", "inout_role_ab", "port_role_ab"]))] for i in range(nl)]
            subs = []
            if k > 0:
                for i in range(draw(st.integers(0, 3))):
                    sidx = draw(st.integers(0, k - 1))
                    f, via = draw(st.sampled_from(FLIPS))
                    subs.append(["uvt"[i], sidx, f, via, draw(st.sampled_from(ROLES))])
            bundles.append({"name": "B%d" % k, "roles": draw(st.sampled_from([True, "fresh"])), "sigs": sigs, "subs": subs})
        f, via = draw(st.sampled_from(FLIPS))
        inst = ["b", nb - 1, draw(st.integers(0, 9)) < 8, f, draw(st.sampled_from(ROLES)), via]
        return {"bundles": bundles, "inst": inst, "style": draw(st.sampled_from(["proc", "class", "gen"]))}

    batch = []

    def flush():
        if batch:
            r = par.pristine(batch_run, list(batch), timeout=900)
            if par.is_exc(r):
                res.harness_error("batch crashed: %s %s" % (r[1], r[3][-800:]))
            else:
                res.merge(r)
            batch.clear()

    @hypothesis.seed(env.subseed(PID, idx))
    @settings(max_examples=nex, database=None, deadline=None, derandomize=False,
              suppress_health_check=list(HealthCheck), phases=[Phase.generate], report_multiple_bugs=False)
    @given(trees())
    def run(case):
        batch.append(case)
        if len(batch) >= 400:
            flush()

    run()
    flush()

    # connection agreement: parents connecting bundle-port children (C01 oracle)
    from .c01 import eval_case
    nd = (8000 if tier == "thorough" else 800) // n
    opts = gen.Opts(arrays=False, pairs=False, prims=False, max_modules=3, max_insts=3, min_modules=2)

    @hypothesis.seed(env.subseed(PID, "conn", idx))
    @settings(max_examples=nd, database=None, deadline=None, derandomize=False,
              suppress_health_check=list(HealthCheck), phases=[Phase.generate], report_multiple_bugs=False)
    @given(gen.designs(opts))
    def run2(spec):
        fs = set(spec.get("features", []))
        if not ({"bundle_conn", "anon_bundle", "subbundle_ref", "bundle_portref"} & fs):
            res.notes["design_without_bundle_connection"] += 1
            return
        v = par.pristine(eval_case, spec)
        if par.is_exc(v):
            res.harness_error("child: %s %s" % (v[1], v[2]))
            return
        case = {"design": {k: spec[k] for k in spec if k != "features"}}
        if v["status"] == "fail":
            res.fail("bundle_connection:" + v["sig"], case, v["detail"])
        elif v["status"] == "reject":
            res.reject(v["sig"])
        res.case(case, True, ["bundle_connection_design"] + [f for f in fs if "bundle" in f or "anon" in f])

    run2()
    return res


def replay(case):
    if "design" in case:
        from .c01 import eval_case
        v = par.in_child(eval_case, case["design"])
        if par.is_exc(v):
            raise RuntimeError(v[2])
        return [("bundle_connection:" + v["sig"], v["detail"])] if v["status"] == "fail" else []
    r = par.in_child(lambda c: check_case(c)[0], case)
    if par.is_exc(r):
        raise RuntimeError(r[2])
    return r


def main(tier):
    t0 = time.time()
    env.setup_paths()
    import hdl21  # noqa
    res = par.run_shards(shard, extra=(tier,))
    return core.finish(PID, LEVEL, tier, res, RULE, ASSUME, replay, t0, exhaustive=True, min_nontrivial=500,
                       extra={"exhaustive_part": "(a) enumerated family is complete for its stated bounds (thorough: full family; quick: the systematic sub-family); (b) sampled"})
