"""C14 - Prefixed numbers are exact, totally ordered and hash-consistent.

Oracle: fractions.Fraction arithmetic on number * 10**prefix.
(a) exhaustive box: all 441 ordered prefix pairs x a fixed mantissa set x every operation;
(b) Hypothesis: Decimal mantissas of 1..25 (thorough 1..40) significant digits, all prefix
    pairs, triples for the relations between the six comparison operators."""
import time, itertools, operator
from decimal import Decimal
from fractions import Fraction

from .. import env, core, par

PID = "C14"
LEVEL = "exploration"
RULE = ("(a) enumerated: every ordered pair of the 21 prefixes x every ordered pair of a fixed mantissa set "
        "(zero, +-1, +-1000, +-0.001, +-999.999, 1.5, 25-digit integers/fractions, boundary straddlers); "
        "(b) Hypothesis-generated Decimal mantissas (1..25 digits, thorough: ..40) with any prefix pair. "
        "Every case runs +,-,*,neg,abs,scale(to each operand prefix and auto),to_prefixed,number*Prefix, the six "
        "comparisons, hash, int, float against Fraction arithmetic; the same on results of a*b and a+b, and on copies of an "
        "already used number (model_copy with another prefix / number, copy, deepcopy, field edits of a copy); every 250 cases a batch of refused operations (non-finite / non-numeric operands, x/0 fed back in) runs in the same process first. Non-trivial = operands with different prefixes, "
        "or a mantissa of >15 significant digits, or values within 1e-18 relative of each other; distinct by (a,b) text.")
ASSUME = ["fractions.Fraction / decimal.Decimal / float(Fraction) of CPython are exact / correctly rounded",
          "tolerance is read as an absolute 1e-20 on the exact values: inside it either answer of a comparison "
          "is accepted, but the six operators must stay mutually consistent",
          "division, powers and Exponent arithmetic are not in the statement and are not asserted"]

TOL = Fraction(1, 10**20)


def _h():
    env.setup_paths()
    import hdl21  # noqa
    from hdl21.prefix import Prefix, Prefixed, to_prefixed
    return Prefix, Prefixed, to_prefixed


def val(p):
    return Fraction(p.number) * Fraction(10) ** p.prefix.value


def mk(Prefixed, Prefix, t):
    return Prefixed(number=Decimal(t[0]), prefix=Prefix(t[1]))


def ndigits(s):
    return len(Decimal(s).as_tuple().digits)


def check_case(case):
    """case = {"a":[numstr, exp], "b":[numstr, exp]} -> list of (sig, detail)"""
    Prefix, Prefixed, to_prefixed = _h()
    out = []
    a = mk(Prefixed, Prefix, case["a"])
    b = mk(Prefixed, Prefix, case["b"])
    va, vb = val(a), val(b)
    if va != Fraction(Decimal(case["a"][0])) * Fraction(10) ** case["a"][1]:
        out.append(("construct_inexact", "Prefixed(number=%s) holds %s" % (case["a"][0], a.number)))
        return out

    def res(name, fn, expect):
        try:
            r = fn()
        except Exception as e:  # arithmetic on finite operands must not raise
            out.append(("%s_raises:%s" % (name, type(e).__name__), "%s(%s, %s) raised %r" % (name, a, b, e)))
            return
        if not isinstance(r, Prefixed):
            out.append(("%s_type" % name, "%s(%s, %s) returned %r" % (name, a, b, r)))
            return
        if val(r) != expect:
            out.append(("%s_inexact" % name, "%s(%s, %s) = %s, exact value %s, differs by %s" % (
                name, a, b, r, expect, float(val(r) - expect))))

    res("add", lambda: a + b, va + vb)
    res("sub", lambda: a - b, va - vb)
    res("mul", lambda: a * b, va * vb)
    res("neg", lambda: -a, -va)
    res("abs", lambda: abs(a), abs(va))
    res("scale_to", lambda: a.scale(b.prefix), va)
    if va != 0:
        res("scale_auto", lambda: a.scale(), va)
    res("to_prefixed", lambda: to_prefixed(a), va)
    res("to_prefixed_dec", lambda: to_prefixed(Decimal(case["a"][0])), Fraction(Decimal(case["a"][0])))
    res("to_prefixed_str", lambda: to_prefixed(case["a"][0]), Fraction(Decimal(case["a"][0])))
    res("rmul_prefix_dec", lambda: Decimal(case["a"][0]) * Prefix(case["a"][1]), va)
    res("rmul_prefix_str", lambda: case["a"][0] * Prefix(case["a"][1]), va)
    if Decimal(case["a"][0]) == Decimal(case["a"][0]).to_integral_value() and abs(Decimal(case["a"][0])) < 10**30:
        iv = int(Decimal(case["a"][0]))
        res("rmul_prefix_int", lambda: iv * Prefix(case["a"][1]), va)
        res("mul_prefixed_int", lambda: b * iv, vb * iv)
        res("add_prefixed_int", lambda: b + iv, vb + iv)

    # comparisons
    ops = {"lt": operator.lt, "le": operator.le, "eq": operator.eq, "ne": operator.ne,
           "gt": operator.gt, "ge": operator.ge}
    got = {}
    for name, op in ops.items():
        try:
            r = op(a, b)
        except Exception as e:
            out.append(("cmp_raises:%s" % type(e).__name__, "%s %s %s raised %r" % (a, name, b, e)))
            continue
        if not isinstance(r, bool):
            out.append(("cmp_type:%s" % name, "%s %s %s returned %r" % (a, name, b, r)))
            continue
        got[name] = r
    d = va - vb
    if abs(d) > TOL:
        for name, op in ops.items():
            if name in got and got[name] != op(va, vb):
                out.append(("cmp_wrong:%s" % name, "%s %s %s is %s; exact values %s vs %s differ by %.3g > 1e-20" % (
                    a, name, b, got[name], float(va), float(vb), float(d))))
    if len(got) == 6:
        if [got["lt"], got["eq"], got["gt"]].count(True) != 1:
            out.append(("cmp_trichotomy", "%s vs %s: lt=%s eq=%s gt=%s" % (a, b, got["lt"], got["eq"], got["gt"])))
        if got["le"] != (got["lt"] or got["eq"]):
            out.append(("cmp_le_incoherent", "%s vs %s: le=%s lt=%s eq=%s" % (a, b, got["le"], got["lt"], got["eq"])))
        if got["ge"] != (not got["lt"]):
            out.append(("cmp_ge_incoherent", "%s vs %s: ge=%s lt=%s" % (a, b, got["ge"], got["lt"])))
        if got["ne"] != (not got["eq"]):
            out.append(("cmp_ne_incoherent", "%s vs %s: ne=%s eq=%s" % (a, b, got["ne"], got["eq"])))
    if d == 0:
        if "eq" in got and not got["eq"]:
            out.append(("eq_same_value_false", "%s == %s is False though both denote %s" % (a, b, va)))
        try:
            if hash(a) != hash(b):
                out.append(("hash_mismatch", "hash(%s) != hash(%s) though both denote %s" % (a, b, va)))
        except Exception as e:
            out.append(("hash_raises:%s" % type(e).__name__, "hash raised %r" % e))
    # reflexive checks on a alone
    try:
        if not (a == a) or hash(a) != hash(mk(Prefixed, Prefix, case["a"])):
            out.append(("eq_reflexive", "%s is not equal to / hashes unlike an identical copy" % a))
    except Exception as e:
        out.append(("cmp_raises:%s" % type(e).__name__, "%s == itself raised %r" % (a, e)))

    # second-generation operands: results of exact operations are prefixed numbers too (longer mantissas, mantissa
    # exponents of their own); the same laws apply to them
    for name, fn, v2 in (("mul", lambda: a * b, va * vb), ("add", lambda: a + b, va + vb)):
        try:
            r = fn()
        except Exception:
            continue  # reported above
        if not isinstance(r, Prefixed) or val(r) != v2:
            continue  # reported above
        for name2, fn2, e2 in (("%s_then_mul" % name, lambda: r * a, v2 * va), ("%s_then_sub" % name, lambda: r - b, v2 - vb),
                               ("%s_then_scale" % name, lambda: r.scale(a.prefix), v2), ("%s_then_neg" % name, lambda: -r, -v2)):
            try:
                r2 = fn2()
            except Exception as e:
                out.append(("%s_raises:%s" % (name2, type(e).__name__), "%s on %s (= %s of %s, %s) raised %r" % (name2, r, name, a, b, e)))
                continue
            if not isinstance(r2, Prefixed) or val(r2) != e2:
                out.append(("%s_inexact" % name2, "%s on %s (= %s of %s, %s) gave %s, exact value %s" % (name2, r, name, a, b, r2, e2)))
        try:
            i = int(r)
            if i != int(v2):
                out.append(("int_wrong", "int(%s) = %r (operand is %s of %s, %s), integer part of the value is %d" % (r, i, name, a, b, int(v2))))
        except Exception as e:
            out.append(("int_raises:%s" % type(e).__name__, "int(%s) raised %r" % (r, e)))
        try:
            ef = float(v2)
        except OverflowError:
            ef = None
        if ef is not None:
            try:
                f = float(r)
                if f != ef:
                    out.append(("float_not_nearest", "float(%s) = %r (operand is %s of %s, %s), nearest double is %r" % (r, f, name, a, b, ef)))
            except Exception as e:
                out.append(("float_raises:%s" % type(e).__name__, "float(%s) raised %r" % (r, e)))
        try:
            c = (r < a, r == a, r > a)
            if abs(v2 - va) > TOL and c != (v2 < va, v2 == va, v2 > va):
                out.append(("cmp_wrong:derived", "%s (= %s of %s, %s) vs %s: lt,eq,gt = %s" % (r, name, a, b, a, c)))
            if c.count(True) != 1:
                out.append(("cmp_trichotomy", "%s vs %s: lt,eq,gt = %s" % (r, a, c)))
            if v2 == va and hash(r) != hash(a):
                out.append(("hash_mismatch", "hash(%s) != hash(%s) though both denote %s" % (r, a, va)))
            if v2 == va and not c[1]:
                out.append(("eq_same_value_false", "%r (= %s of %s, %s) == %r is False though both denote %s" % (r, name, a, b, a, va)))
        except Exception as e:
            out.append(("cmp_raises:%s" % type(e).__name__, "%s compared with %s raised %r" % (r, a, e)))

    # numbers derived from a by the data-model routes (after a itself has been compared, hashed and converted above):
    # a copy with another prefix, a copy.copy(), and an in-place edit of a copy's fields denote the value their fields say
    try:
        import copy as _copy
        derived = [("model_copy(update=prefix)", a.model_copy(update={"prefix": b.prefix}), Fraction(a.number) * Fraction(10) ** b.prefix.value),
                   ("model_copy(update=number)", a.model_copy(update={"number": b.number}), Fraction(b.number) * Fraction(10) ** a.prefix.value),
                   ("copy.copy", _copy.copy(a), va), ("copy.deepcopy", _copy.deepcopy(a), va)]
        e = _copy.copy(a)
        hash(e); float(e) if abs(va) < Fraction(10) ** 300 else None
        e.prefix = b.prefix
        e.number = b.number
        derived.append(("in-place edit of a copy", e, vb))
        for how, x, want in derived:
            fresh = Prefixed(number=x.number, prefix=x.prefix)
            if val(x) != want:
                out.append(("derived_fields_wrong", "%s of %s gives fields %s*%s" % (how, a, x.number, x.prefix)))
            elif not (x == fresh) or hash(x) != hash(fresh) or (x < fresh) or (x > fresh) or int(x) != int(want):
                out.append(("derived_number_stale", "%s of %s has fields %s but behaves otherwise: ==fresh %s, hash equal %s, int %s (value %s)" % (
                    how, a, fresh, x == fresh, hash(x) == hash(fresh), int(x), int(want))))
            else:
                try:
                    ef = float(want)
                except OverflowError:
                    ef = None
                if ef is not None and float(x) != ef:
                    out.append(("derived_number_stale", "%s of %s has fields %s but float() gives %r, nearest double of its value is %r" % (how, a, fresh, float(x), ef)))
    except Exception as e:
        out.append(("derived_raises:%s" % type(e).__name__, "copy / model_copy / field edit of %s raised %r" % (a, e)))

    # int / float
    try:
        i = int(a)
        if i != int(va) or not isinstance(i, int):
            out.append(("int_wrong", "int(%s) = %r, integer part of the value is %d" % (a, i, int(va))))
    except Exception as e:
        out.append(("int_raises:%s" % type(e).__name__, "int(%s) raised %r" % (a, e)))
    try:
        expect = float(va)
    except OverflowError:
        expect = None
    if expect is not None:
        try:
            f = float(a)
            if f != expect or not isinstance(f, float):
                out.append(("float_not_nearest", "float(%s) = %r, nearest double is %r" % (a, f, expect)))
        except Exception as e:
            out.append(("float_raises:%s" % type(e).__name__, "float(%s) raised %r" % (a, e)))
    return out


def nontrivial(case):
    a, b = case["a"], case["b"]
    if a[1] != b[1]:
        return True
    if ndigits(a[0]) > 15 or ndigits(b[0]) > 15:
        return True
    va = Fraction(Decimal(a[0])) * Fraction(10) ** a[1]
    vb = Fraction(Decimal(b[0])) * Fraction(10) ** b[1]
    if va != vb and max(abs(va), abs(vb)) and abs(va - vb) / max(abs(va), abs(vb)) < Fraction(1, 10**18):
        return True
    return False


PREFIXES = [-24, -21, -18, -15, -12, -9, -6, -3, -2, -1, 0, 1, 2, 3, 6, 9, 12, 15, 18, 21, 24]
MANT_QUICK = ["0", "-0", "1", "-1", "1000", "0.001", "999.999", "1.5", "-1500",
              "1234567890123456789012345", "0.1234567890123456789012345"]
MANT_FULL = MANT_QUICK + ["-1000", "-0.001", "-999.999", "1000.001", "999", "1001", "0.999", "0.0010000000000000000001",
                          "-1234567890123456789012345", "99999999999999999999.99999", "1E+3", "1.000", "10", "0.01"]


def feats(case):
    f = []
    a, b = case["a"], case["b"]
    f.append("same_prefix" if a[1] == b[1] else ("far_prefix" if abs(a[1] - b[1]) > 8 else "near_prefix"))
    if max(ndigits(a[0]), ndigits(b[0])) > 15:
        f.append("long_mantissa")
    va = Fraction(Decimal(a[0])) * Fraction(10) ** a[1]
    vb = Fraction(Decimal(b[0])) * Fraction(10) ** b[1]
    if va == vb:
        f.append("equal_values")
        if a != b:
            f.append("equal_values_written_differently")
    if va == 0 or vb == 0:
        f.append("zero")
    if (va < 0) != (vb < 0):
        f.append("mixed_sign")
    ea, eb = Decimal(a[0]).adjusted(), Decimal(b[0]).adjusted()
    if min(ea, eb) < -40:
        f.append("tiny_mantissa_exponent")
    if max(ea, eb) > 40:
        f.append("huge_mantissa_exponent")
    return f


_NEVAL = [0]


def poison():
    """Operations on prefixed numbers that are refused (non-finite or non-numeric operands, division by zero fed back in): each
    raises - or returns something else than a Prefixed - and must leave no state behind for the cases that follow."""
    Prefix, Prefixed, to_prefixed = _h()
    a = Prefixed(number=Decimal("1.5"), prefix=Prefix(3))
    for op in (lambda: a + float("inf"), lambda: a * float("nan"), lambda: a - "abc", lambda: a + (a / 0), lambda: (a / 0) * a,
               lambda: a.scale("bogus"), lambda: a + None, lambda: abs(a / 0), lambda: Prefixed(number=Decimal("NaN"), prefix=Prefix(0)) + a,
               lambda: a < "x", lambda: to_prefixed("not a number") + a):
        try:
            op()
        except Exception:
            pass


def _eval(res, case):
    _NEVAL[0] += 1
    if _NEVAL[0] % 250 == 1:
        poison()
    for sig, detail in check_case(case):
        res.fail(sig, case, detail)
    res.case(case, nontrivial(case), feats(case), key=repr((case["a"], case["b"])))


def shard(idx, n, tier):
    _h()
    res = core.Result()
    mant = MANT_FULL if tier == "thorough" else MANT_QUICK
    pairs = list(itertools.product(PREFIXES, PREFIXES))
    for k, (pa, pb) in enumerate(pairs):
        if k % n != idx:
            continue
        for ma, mb in itertools.product(mant, mant):
            _eval(res, {"a": [ma, pa], "b": [mb, pb]})
    res.notes["enumerated_cases"] += res.evaluations

    # (b) Hypothesis
    import hypothesis
    from hypothesis import given, settings, strategies as st, HealthCheck, Phase
    maxd = 40 if tier == "thorough" else 25
    nex = (60000 if tier == "thorough" else 6000) // n

    digits = st.integers(1, maxd).flatmap(lambda k: st.integers(10 ** (k - 1) if k > 1 else 0, 10 ** k - 1))
    # the mantissa's own exponent: mostly moderate, sometimes far out (1E-90 is a one-digit Decimal mantissa)
    mexp = st.one_of(st.integers(-30, 30), st.integers(-30, 30), st.integers(-120, 120))
    mant_s = st.tuples(st.booleans(), digits, mexp).map(
        lambda t: "%s%dE%d" % ("-" if t[0] else "", t[1], t[2]))
    plain = st.tuples(st.booleans(), st.integers(0, 10**9), st.integers(0, 9)).map(
        lambda t: str(Decimal(("-" if t[0] else "") + str(t[1])).scaleb(-t[2])))
    import math
    from decimal import localcontext

    def midpoint(t):
        """long decimal 1e-29..1e-45 relative beside the midpoint of two adjacent doubles, rescaled to prefix exponent pe"""
        x, k, up, pe = t
        with localcontext() as ctx:
            ctx.prec = 500
            mid = (Decimal(x) + Decimal(math.nextafter(x, math.inf))) / 2
            v = mid + (1 if up else -1) * abs(mid).scaleb(-k)
            return (str(v.scaleb(-pe)), pe)
    mids = st.tuples(st.floats(min_value=1e-30, max_value=1e30, allow_nan=False, allow_infinity=False), st.integers(29, 45), st.booleans(),
                     st.sampled_from(PREFIXES)).map(midpoint)
    one = st.one_of(st.tuples(st.one_of(mant_s, plain, st.sampled_from(MANT_FULL)), st.sampled_from(PREFIXES)),
                    st.tuples(st.one_of(mant_s, plain, st.sampled_from(MANT_FULL)), st.sampled_from(PREFIXES)),
                    st.tuples(st.one_of(mant_s, plain, st.sampled_from(MANT_FULL)), st.sampled_from(PREFIXES)), mids)

    @st.composite
    def pair(draw):
        a = draw(one)
        mode = draw(st.integers(0, 9))
        if mode <= 1:
            # same value written with another prefix (exact rescale of the mantissa text)
            pb = draw(st.sampled_from(PREFIXES))
            mb = str(Decimal(a[0]).scaleb(a[1] - pb)) if ndigits(a[0]) < 60 else a[0]
            try:
                ok = Fraction(Decimal(mb)) * Fraction(10) ** pb == Fraction(Decimal(a[0])) * Fraction(10) ** a[1]
            except Exception:
                ok = False
            b = (mb, pb) if ok else draw(one)
        elif mode == 2:
            # near neighbour: differs in the last digit
            d = Decimal(a[0])
            t = d.as_tuple()
            nb = Decimal((t.sign, t.digits[:-1] + ((t.digits[-1] + 1) % 10,), t.exponent))
            b = (str(nb), a[1])
        else:
            b = draw(one)
        return {"a": [a[0], a[1]], "b": [b[0], b[1]]}

    @hypothesis.seed(env.subseed(PID, idx))
    @settings(max_examples=nex, database=None, deadline=None, derandomize=False,
              suppress_health_check=list(HealthCheck), phases=[Phase.generate], report_multiple_bugs=False)
    @given(pair())
    def run(case):
        _eval(res, case)

    run()
    return res


def replay(case):
    return check_case(case)


def main(tier):
    t0 = time.time()
    _h()
    res = par.run_shards(shard, extra=(tier,))
    return core.finish(PID, LEVEL, tier, res, RULE, ASSUME, replay, t0, exhaustive=True,
                       extra={"exhaustive_part": "(a) all 441 ordered prefix pairs x mantissa set x all operations; (b) is sampled"})
