"""C12 - Output is reproducible across processes.

Batches of generated designs (and corpus items) are executed by real python subprocesses under
different PYTHONHASHSEED values, batch permutations and amounts of unrelated earlier work; every
worker must report identical digests of the serialized package and of each netlist format."""
import json, os, shutil, subprocess, sys, tempfile, time
from concurrent.futures import ThreadPoolExecutor
from .. import env, core, par, gen, corpus

PID = "C12"
LEVEL = "exploration"
RULE = ("Batches of Hypothesis-generated designs (C01 generator, biased toward bundles feeding several ports of one instance, "
        "no-connects, port references, arrays, pairs, generator-named modules) plus the examples / built-in generator corpus; each "
        "batch is run by S real subprocesses (S=8 quick, 24 thorough) with drawn PYTHONHASHSEED values, a drawn permutation of the "
        "batch and drawn amounts of unrelated allocation / elaboration before each design; every other worker discards and "
        "garbage-collects each design before the next one is built (so object addresses are re-used), the rest keep all alive; every third batch also holds seventeen hand-written corner designs (one number written four ways in generator "
        "parameters, one bundle port reference used twice on an instance, reference cycles within an instance, set- and set-of-sets-valued generator "
        "parameters, parameter values from inexact prefixed division, Sky130 / GF180 compiles of one device size written two ways, two generators over one param-class called with 0.0 / -0.0, a generator parameter object placed on the address of a dead one, one sub-bundle reference driving several bundle ports of an instance); the unrelated earlier work includes prefixed-number arithmetic. For every design all workers must "
        "report the same SHA-256 of Package.SerializeToString(deterministic=True) and of the spice, spectre and verilog netlist "
        "text (a netlister exception must be the same class everywhere). Non-trivial = design with a bundle / anonymous-bundle "
        "connection, no-connect, port reference, array or pair; distinct by canonical spec hash.")
ASSUME = ["a few dozen hash seeds and allocation histories are sampled: absence of hash-order dependence is not shown",
          "a netlister exception is not a violation by itself, only a difference between workers is"]

WORKER = os.path.join(env.VERIF, "vlib", "c12_worker.py")
NT = {"bundle_conn", "anon_bundle", "noconn", "portref", "portref_in_expr", "portref_root_unconnected", "pair", "array",
      "several_bundle_ports", "subbundle_ref", "bundle_portref"}


def run_worker(args):
    jobfile, outfile, hashseed = args
    envv = dict(os.environ)
    envv["PYTHONHASHSEED"] = str(hashseed)
    envv["VERIF_KEEP_HASHSEED"] = "1"
    p = subprocess.run(["/venv/bin/python", WORKER, jobfile, outfile], env=envv, capture_output=True, text=True, timeout=1200)
    if p.returncode != 0:
        return {"__error__": p.stderr[-1500:]}
    return json.load(open(outfile))


def gen_specs(n, seed_parts):
    import hypothesis
    from hypothesis import given, settings, HealthCheck, Phase
    out = []
    variants = [gen.Opts(max_modules=3, max_insts=4), gen.Opts(max_modules=3, max_insts=4, arrays=False, pairs=False, prims=False)]
    for vi, o in enumerate(variants):
        @hypothesis.seed(env.subseed(PID, vi, *seed_parts))
        @settings(max_examples=n // len(variants), database=None, deadline=None, derandomize=False,
                  suppress_health_check=list(HealthCheck), phases=[Phase.generate], report_multiple_bugs=False)
        @given(gen.designs(o))
        def run(spec):
            out.append(spec)
        run()
    return out


def main(tier):
    t0 = time.time()
    env.setup_paths()
    import random
    res = core.Result()
    S = 24 if tier == "thorough" else 8
    nbatches = 40 if tier == "thorough" else 6
    per = 40
    specs = gen_specs(nbatches * per, ())
    rnd = random.Random(env.subseed(PID, "sched"))  # derived from VERIF_SEED only: schedules are reproducible
    work = tempfile.mkdtemp(prefix="c12_", dir=os.environ.get("TMPDIR", "/tmp"))
    try:
        jobs = []
        batches = []
        its = corpus.items(tier)
        for bi in range(nbatches):
            chunk = specs[bi * per:(bi + 1) * per]
            items = [{"key": "d%d_%d" % (bi, k), "spec": {x: s[x] for x in s if x != "features"}} for k, s in enumerate(chunk)]
            if bi == 0:
                items += [{"key": "c%d" % k, "corpus": k} for k in range(len(its))]
                items += [{"key": "p%d" % k, "pdk_item": k} for k in range(4)]  # PDK-compiled designs (sample, Sky130, GF180, ASAP7)
            items += [{"key": "ch%d_%d" % (bi, k), "churn": k} for k in range(4)]
            if bi % 3 == 0:
                items += [{"key": "sh%d_%d" % (bi, k), "shape": k} for k in range(17)]
            batches.append((items, chunk))
            for w in range(S):
                order = list(range(len(items)))
                if w:
                    rnd.shuffle(order)
                noise = {}
                if w:
                    for pos in order:
                        if rnd.random() < 0.3:
                            noise[str(pos)] = {"alloc": rnd.choice([0, 10, 1000, 100000]), "designs": rnd.choice([0, 1, 3]),
                                               "keep": rnd.random() < 0.5, "arith": rnd.choice([0, 0, 1, 4])}
                job = {"items": items, "order": order, "noise": noise, "tier": tier, "drop": bool(w) and w % 2 == 1}
                jf = os.path.join(work, "job_%d_%d.json" % (bi, w)); of = os.path.join(work, "out_%d_%d.json" % (bi, w))
                json.dump(job, open(jf, "w"))
                hs = 0 if w == 0 else rnd.randrange(1, 2**32 - 1)
                jobs.append((bi, w, (jf, of, hs)))
        with ThreadPoolExecutor(max_workers=par.NCPU) as ex:
            outs = list(ex.map(lambda j: run_worker(j[2]), jobs))
        byb = {}
        for (bi, w, a), o in zip(jobs, outs):
            if "__error__" in o:
                res.harness_error("worker batch %d #%d (hashseed %s) failed: %s" % (bi, w, a[2], o["__error__"]))
                continue
            st_ = o.pop("__stats__", {})
            res.notes["anon_bundles_placed_on_reused_addresses"] += st_.get("reincarnated", 0)
            res.notes["param_objects_placed_on_reused_addresses"] += st_.get("param_objects_on_reused_addresses", 0)
            byb.setdefault(bi, []).append((w, a[2], o))
        for bi, (items, chunk) in enumerate(batches):
            runs = byb.get(bi, [])
            if len(runs) < 2:
                continue
            for k, it in enumerate(items):
                key = it["key"]
                ref = runs[0][2].get(key)
                feats = list(chunk[k].get("features", [])) if k < len(chunk) else ["churn_design", "anon_bundle"] if "churn" in it else ["shape_%d" % it["shape"], "portref"] if "shape" in it else ["corpus"]
                case = ({"spec": it["spec"]} if "spec" in it else {"pdk_item": it["pdk_item"]} if "pdk_item" in it else
                        {"churn": it["churn"]} if "churn" in it else {"shape": it["shape"]} if "shape" in it else {"corpus": its[it["corpus"]][0]})
                if ref and ref.get("proto", "").startswith(("EXC", "BUILD-EXC")):
                    res.reject(ref["proto"])
                for w, hs, o in runs[1:]:
                    got = o.get(key)
                    if got != ref:
                        fields = sorted(f for f in set(ref or {}) | set(got or {}) if (ref or {}).get(f) != (got or {}).get(f))
                        res.fail("differs:" + "+".join(fields), dict(case, hashseeds=[runs[0][1], hs]),
                                 "worker with PYTHONHASHSEED=%s reports different %s than the reference worker (hash seed %s)" % (hs, fields, runs[0][1]))
                        break
                nt = bool(NT & set(feats)) or "corpus" in feats
                res.case(case, nt, feats)
        res.notes["workers_per_batch"] = S
        res.notes["batches"] = nbatches
    finally:
        shutil.rmtree(work, ignore_errors=True)
    return core.finish(PID, LEVEL, tier, res, RULE, ASSUME, replay, t0, min_nontrivial=50)


def replay(case):
    """Re-run one design under 8 hash seeds (including the recorded ones)."""
    work = tempfile.mkdtemp(prefix="c12r_")
    try:
        if "spec" in case:
            items = [{"key": "x", "spec": case["spec"]}]
        elif "pdk_item" in case:
            items = [{"key": "x", "pdk_item": case["pdk_item"]}]
        elif "shape" in case:
            items = [{"key": "x", "shape": case["shape"]}] + [{"key": "n%d" % k, "shape": k} for k in range(17) if k != case["shape"]]
        elif "churn" in case:
            items = [{"key": "x", "churn": case["churn"]}] + [{"key": "n%d" % k, "churn": 10 + k} for k in range(6)]
        else:
            names = [nm for nm, _ in corpus.items("thorough")]
            items = [{"key": "x", "corpus": names.index(case["corpus"])}]
        seeds = list(case.get("hashseeds", [])) + [0, 1, 2, 3, 4, 5, 6, 7]
        jobs = []
        for i, hs in enumerate(seeds[:10]):
            jf = os.path.join(work, "j%d.json" % i); of = os.path.join(work, "o%d.json" % i)
            order = [0] if len(items) == 1 or i == 0 else list(range(1, len(items))) + [0]
            json.dump({"items": items, "order": order, "drop": bool(i % 2), "tier": "thorough",
                       "noise": {"0": {"alloc": 1000 * i, "designs": i % 3, "keep": bool(i % 2), "arith": i % 2}}}, open(jf, "w"))
            jobs.append((jf, of, hs))
        with ThreadPoolExecutor(max_workers=min(len(jobs), par.NCPU)) as ex:  # the ten worker processes run side by side
            results = list(ex.map(run_worker, jobs))
        outs = []
        for o in results:
            if "__error__" in o:
                raise RuntimeError(o["__error__"])
            outs.append(o["x"])
        for o in outs[1:]:
            if o != outs[0]:
                fields = sorted(f for f in set(o) | set(outs[0]) if o.get(f) != outs[0].get(f))
                return [("differs:" + "+".join(fields), "outputs differ between hash seeds / histories in %s" % fields)]
        return []
    finally:
        shutil.rmtree(work, ignore_errors=True)
