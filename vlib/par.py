"""Process helpers: sharding over cores and fork-per-case isolation.

Hdl21 keeps process-global caches (per-pass done sets, bundle-flattening cache keyed by
object id, generator cache, PDK registries).  To make each case a pure function of its
input the design-level checks run every case in a child forked from a parent that has
imported hdl21 but never built or elaborated anything."""
import os, pickle, select, signal, sys, time, traceback
import multiprocessing as mp
from .core import Result

NCPU = min(16, os.cpu_count() or 1)


class ChildCrash(Exception):
    pass


def in_child(fn, *args, timeout=120):
    """Run fn(*args) in a forked child; return its (picklable) value.
    An exception escaping fn is returned as ("__exc__", type-name, text, traceback-text)."""
    r, w = os.pipe()
    pid = os.fork()
    if pid == 0:
        code = 0
        try:
            os.close(r)
            try:
                val = fn(*args)
            except BaseException as e:  # noqa
                val = ("__exc__", type(e).__name__, str(e)[:4000], traceback.format_exc()[-6000:])
            data = pickle.dumps(val)
            with os.fdopen(w, "wb") as f:
                f.write(data)
        except BaseException:
            code = 3
        finally:
            os._exit(code)
    os.close(w)
    chunks = []
    deadline = time.time() + timeout
    timed_out = False
    with os.fdopen(r, "rb") as f:
        while True:
            left = deadline - time.time()
            if left <= 0:
                timed_out = True
                break
            rl, _, _ = select.select([f], [], [], min(left, 5.0))
            if rl:
                b = os.read(f.fileno(), 1 << 20)
                if not b:
                    break
                chunks.append(b)
    if timed_out:
        try:
            os.kill(pid, signal.SIGKILL)
        except ProcessLookupError:
            pass
        os.waitpid(pid, 0)
        raise ChildCrash("child timed out after %ss" % timeout)
    _, status = os.waitpid(pid, 0)
    data = b"".join(chunks)
    if not data:
        raise ChildCrash("child died without a result (status %r)" % (status,))
    return pickle.loads(data)


def is_exc(v):
    return isinstance(v, tuple) and len(v) == 4 and v[0] == "__exc__"


def _shard_entry(a):
    fn, idx, n, extra = a
    try:
        return fn(idx, n, *extra)
    except BaseException:
        r = Result()
        r.harness_error("shard %d crashed: %s" % (idx, traceback.format_exc()[-3000:]))
        return r


def run_shards(fn, nshards=None, extra=()):
    """fn(shard_index, nshards, *extra) -> Result; merged Result is returned."""
    nshards = nshards or NCPU
    total = Result()
    if nshards == 1:
        return total.merge(_shard_entry((fn, 0, 1, extra)))
    ctx = mp.get_context("fork")
    with ctx.Pool(min(nshards, NCPU)) as pool:
        for r in pool.imap_unordered(_shard_entry, [(fn, i, nshards, extra) for i in range(nshards)]):
            total.merge(r)
    return total


class ForkServer:
    """A lean, pristine template process that forks one child per job.

    Started before the parent accumulates Hypothesis state, so forks stay cheap and every job sees a
    process that has imported the code under test but never built or elaborated anything.
    Jobs are (module-level function, args) pickled by reference."""

    def __init__(self, init=None):
        self.p2c_r, self.p2c_w = os.pipe()
        self.c2p_r, self.c2p_w = os.pipe()
        self.pid = os.fork()
        if self.pid == 0:
            try:
                os.close(self.p2c_w); os.close(self.c2p_r)
                import gc
                gc.collect(); gc.freeze()
                fin = os.fdopen(self.p2c_r, "rb"); fout = os.fdopen(self.c2p_w, "wb")
                while True:
                    try:
                        job = pickle.load(fin)
                    except EOFError:
                        break
                    if job is None:
                        break
                    fn, args, timeout = job
                    try:
                        val = in_child(fn, *args, timeout=timeout)
                    except ChildCrash as e:
                        val = ("__crash__", str(e))
                    except BaseException as e:  # noqa
                        val = ("__crash__", "server: %r" % (e,))
                    pickle.dump(val, fout); fout.flush()
            finally:
                os._exit(0)
        os.close(self.p2c_r); os.close(self.c2p_w)
        self.fout = os.fdopen(self.p2c_w, "wb"); self.fin = os.fdopen(self.c2p_r, "rb")

    def run(self, fn, *args, timeout=120):
        pickle.dump((fn, args, timeout), self.fout); self.fout.flush()
        val = pickle.load(self.fin)
        if isinstance(val, tuple) and len(val) == 2 and val[0] == "__crash__":
            raise ChildCrash(val[1])
        return val

    def close(self):
        try:
            pickle.dump(None, self.fout); self.fout.flush(); self.fout.close(); self.fin.close()
        except Exception:
            pass
        try:
            os.waitpid(self.pid, 0)
        except Exception:
            pass


_SERVER = None


def server():
    """Per-process fork server (created on first use; call early, before heavy allocation)."""
    global _SERVER
    if _SERVER is None or _SERVER[0] != os.getpid():
        _SERVER = (os.getpid(), ForkServer())
    return _SERVER[1]


def pristine(fn, *args, timeout=120):
    return server().run(fn, *args, timeout=timeout)
