"""Process helpers: sharding over cores and fork-per-case isolation.

Hdl21 keeps process-global caches (per-pass done sets, bundle-flattening cache keyed by
object id, generator cache, PDK registries).  To make each case a pure function of its
input the design-level checks run every case in a child forked from a parent that has
imported hdl21 but never built or elaborated anything."""
import os, pickle, select, signal, sys, time, traceback
import multiprocessing as mp
from .core import Result

NCPU = min(16, os.cpu_count() or 1)


class ChildCrash(Exception):
    pass


def in_child(fn, *args, timeout=120):
    """Run fn(*args) in a forked child; return its (picklable) value.
    An exception escaping fn is returned as ("__exc__", type-name, text, traceback-text)."""
    r, w = os.pipe()
    pid = os.fork()
    if pid == 0:
        code = 0
        try:
            os.close(r)
            try:
                val = fn(*args)
            except BaseException as e:  # noqa
                val = ("__exc__", type(e).__name__, str(e)[:4000], traceback.format_exc()[-6000:])
            data = pickle.dumps(val)
            with os.fdopen(w, "wb") as f:
                f.write(data)
        except BaseException:
            code = 3
        finally:
            os._exit(code)
    os.close(w)
    chunks = []
    deadline = time.time() + timeout
    timed_out = False
    with os.fdopen(r, "rb") as f:
        while True:
            left = deadline - time.time()
            if left <= 0:
                timed_out = True
                break
            rl, _, _ = select.select([f], [], [], min(left, 5.0))
            if rl:
                b = os.read(f.fileno(), 1 << 20)
                if not b:
                    break
                chunks.append(b)
    if timed_out:
        try:
            os.kill(pid, signal.SIGKILL)
        except ProcessLookupError:
            pass
        os.waitpid(pid, 0)
        raise ChildCrash("child timed out after %ss" % timeout)
    _, status = os.waitpid(pid, 0)
    data = b"".join(chunks)
    if not data:
        raise ChildCrash("child died without a result (status %r)" % (status,))
    return pickle.loads(data)


def is_exc(v):
    return isinstance(v, tuple) and len(v) == 4 and v[0] == "__exc__"


def _shard_entry(a):
    fn, idx, n, extra = a
    try:
        return fn(idx, n, *extra)
    except BaseException:
        r = Result()
        r.harness_error("shard %d crashed: %s" % (idx, traceback.format_exc()[-3000:]))
        return r


def run_shards(fn, nshards=None, extra=()):
    """fn(shard_index, nshards, *extra) -> Result; merged Result is returned."""
    nshards = nshards or NCPU
    total = Result()
    if nshards == 1:
        return total.merge(_shard_entry((fn, 0, 1, extra)))
    ctx = mp.get_context("fork")
    with ctx.Pool(min(nshards, NCPU)) as pool:
        for r in pool.imap_unordered(_shard_entry, [(fn, i, nshards, extra) for i in range(nshards)]):
            total.merge(r)
    return total
