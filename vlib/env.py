"""Environment set-up shared by every check: import paths for /repo and its PDK
packages, seed / tier handling.  The code under test is always /repo's working tree."""
import os, sys, hashlib

REPO = os.environ.get("VERIF_REPO", "/repo")
VERIF = os.path.dirname(os.path.dirname(os.path.abspath(__file__)))


def setup_paths(pdks=False):
    want = [REPO]
    if pdks:
        want = [REPO + "/pdks/Sky130", REPO + "/pdks/Gf180", REPO + "/pdks/Asap7", REPO]
    for p in reversed(want):
        if p in sys.path:
            sys.path.remove(p)
        sys.path.insert(0, p)


def seed() -> int:
    try:
        return int(os.environ.get("VERIF_SEED", "1"))
    except ValueError:
        return 1


def subseed(*parts) -> int:
    """Deterministic 32-bit derived seed (never python's hash())."""
    h = hashlib.sha256(repr((seed(),) + parts).encode()).digest()
    return int.from_bytes(h[:4], "big")


def canon_hash(obj) -> str:
    import json
    return hashlib.sha256(json.dumps(obj, sort_keys=True, default=str).encode()).hexdigest()[:16]
