"""C12 worker: run as a real process (the hash seed is fixed at interpreter start-up).
usage: python c12_worker.py <job.json> <out.json>"""
import sys, os, json, hashlib, io

sys.dont_write_bytecode = True
sys.path.insert(0, os.path.dirname(os.path.dirname(os.path.abspath(__file__))))


def main():
    job = json.load(open(sys.argv[1]))
    from vlib import env, corpus
    env.setup_paths()
    import hdl21 as h
    from vlib.build import Builder
    keep = []
    out = {}

    def noise(n):
        if not n:
            return
        a, j = n.get("alloc", 0), n.get("designs", 0)
        junk = [{"k": i, "v": [i] * 3} for i in range(a)]
        if n.get("keep"):
            keep.append(junk)
        for q in range(j):
            m = h.Module(name="Noise%d_%d" % (len(keep), q))
            m.add(h.Signal(name="a", width=2))
            m.add(h.R(r=1)(p=m.a[0], n=m.a[1]), name="r")
            keep.append(m)
            h.elaborate(m)

    def digest(top):
        r = {}
        try:
            pkg = h.to_proto(top)
        except Exception as e:
            return {"proto": "EXC:" + type(e).__name__}
        r["proto"] = hashlib.sha256(pkg.SerializeToString(deterministic=True)).hexdigest()
        for fmt in ("spice", "spectre", "verilog"):
            s = io.StringIO()
            try:
                h.netlist(pkg, s, fmt=fmt)
                r[fmt] = hashlib.sha256(s.getvalue().encode()).hexdigest()
            except Exception as e:
                r[fmt] = "EXC:" + type(e).__name__
        return r

    def churn(k, reuse):
        """A fixed little design wired through anonymous bundles. With reuse, its AnonymousBundle objects are allocated
        until they land on addresses that anonymous bundles of earlier, discarded designs had (an adversarial allocation
        history for anything that remembers objects by address); without, they are simply fresh."""
        from vlib import build as vbuild
        B = h.Bundle(name="ChurnBus")
        B.add(h.Signal(name="x")); B.add(h.Signal(name="y", width=2))
        leaf = h.Module(name="ChurnLeaf%d" % k)
        leaf.add(B(port=True), name="bus")
        leaf.add(h.R(r=1)(p=leaf.bus.x, n=leaf.bus.y[0]), name="r")
        top = h.Module(name="ChurnTop%d" % k)
        sigs = [top.add(h.Signal(name="s%d" % i)) for i in range(4)]
        wide = [top.add(h.Signal(name="w%d" % i, width=2)) for i in range(4)]
        held = []
        for i in range(4):
            def make():
                return h.AnonymousBundle(x=sigs[i], y=wide[(i + k) % 4])
            ab = make()
            tries = 0
            while reuse and id(ab) not in vbuild.ANON_IDS and tries < 20000:
                held.append(ab)  # keeps the rejected address occupied
                ab = make()
                tries += 1
            if reuse and id(ab) in vbuild.ANON_IDS:
                stats["reincarnated"] = stats.get("reincarnated", 0) + 1
            vbuild.ANON_IDS.add(id(ab))
            top.add(leaf(bus=ab), name="u%d" % i)
        del held
        return top

    stats = {}
    items = job["items"]
    drop = job.get("drop", False)  # earlier designs are discarded and collected, so later objects re-use their addresses
    import gc
    for pos in job["order"]:
        it = items[pos]
        noise(job.get("noise", {}).get(str(pos)))
        if drop:
            del keep[:]
            top = b = mods = None
            gc.collect()
        try:
            if "spec" in it:
                b = Builder(it["spec"])
                keep.append(b)
                top = b.module(it["spec"]["top"])
            elif "churn" in it:
                top = churn(it["churn"], drop)
                keep.append(top)
            elif "pdk_item" in it:
                from vlib.checks import c15
                case = c15.C06_ITEMS[it["pdk_item"]]
                pdkmod = c15.imp(case["target"])
                mods, _ = c15.build(case["reqs"], case["shape"])
                top = mods[-1]
                keep.append(mods)
                pdkmod.compile(top)
            else:
                top = corpus.items(job.get("tier", "quick"))[it["corpus"]][1]()
        except Exception as e:
            out[it["key"]] = {"proto": "BUILD-EXC:" + type(e).__name__}
            continue
        out[it["key"]] = digest(top)
    out["__stats__"] = stats
    json.dump(out, open(sys.argv[2], "w"))


if __name__ == "__main__":
    main()
