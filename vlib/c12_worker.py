"""C12 worker: run as a real process (the hash seed is fixed at interpreter start-up).
usage: python c12_worker.py <job.json> <out.json>"""
import sys, os, json, hashlib, io

sys.dont_write_bytecode = True
sys.path.insert(0, os.path.dirname(os.path.dirname(os.path.abspath(__file__))))


def main():
    job = json.load(open(sys.argv[1]))
    from vlib import env, corpus
    env.setup_paths()
    import hdl21 as h
    from vlib.build import Builder
    keep = []
    out = {}

    def noise(n):
        if not n:
            return
        a, j = n.get("alloc", 0), n.get("designs", 0)
        junk = [{"k": i, "v": [i] * 3} for i in range(a)]
        if n.get("arith"):
            # unrelated earlier number crunching with prefixed numbers (long exact products and sums)
            from decimal import Decimal
            from hdl21.prefix import Prefix, Prefixed
            x = Prefixed(number=Decimal("1234567890123456789.0123456789"), prefix=Prefix(-9))
            for i in range(n["arith"]):
                x = x * Prefixed(number=Decimal("1.000000000000000000001"), prefix=Prefix(3)) + Prefixed(number=Decimal(i + 1), prefix=Prefix(-24))
                abs(-x)
            keep.append(x)
        if n.get("keep"):
            keep.append(junk)
        for q in range(j):
            m = h.Module(name="Noise%d_%d" % (len(keep), q))
            m.add(h.Signal(name="a", width=2))
            m.add(h.R(r=1)(p=m.a[0], n=m.a[1]), name="r")
            keep.append(m)
            h.elaborate(m)

    def digest(top):
        r = {}
        try:
            pkg = h.to_proto(top)
        except Exception as e:
            return {"proto": "EXC:" + type(e).__name__}
        r["proto"] = hashlib.sha256(pkg.SerializeToString(deterministic=True)).hexdigest()
        for fmt in ("spice", "spectre", "verilog"):
            s = io.StringIO()
            try:
                h.netlist(pkg, s, fmt=fmt)
                r[fmt] = hashlib.sha256(s.getvalue().encode()).hexdigest()
            except Exception as e:
                r[fmt] = "EXC:" + type(e).__name__
        return r

    def churn(k, reuse):
        """A fixed little design wired through anonymous bundles. With reuse, its AnonymousBundle objects are allocated
        until they land on addresses that anonymous bundles of earlier, discarded designs had (an adversarial allocation
        history for anything that remembers objects by address); without, they are simply fresh."""
        from vlib import build as vbuild
        B = h.Bundle(name="ChurnBus")
        B.add(h.Signal(name="x")); B.add(h.Signal(name="y", width=2))
        leaf = h.Module(name="ChurnLeaf%d" % k)
        leaf.add(B(port=True), name="bus")
        leaf.add(h.R(r=1)(p=leaf.bus.x, n=leaf.bus.y[0]), name="r")
        top = h.Module(name="ChurnTop%d" % k)
        sigs = [top.add(h.Signal(name="s%d" % i)) for i in range(4)]
        wide = [top.add(h.Signal(name="w%d" % i, width=2)) for i in range(4)]
        held = []
        for i in range(4):
            def make():
                return h.AnonymousBundle(x=sigs[i], y=wide[(i + k) % 4])
            ab = make()
            tries = 0
            while reuse and id(ab) not in vbuild.ANON_IDS and tries < 20000:
                held.append(ab)  # keeps the rejected address occupied
                ab = make()
                tries += 1
            if reuse and id(ab) in vbuild.ANON_IDS:
                stats["reincarnated"] = stats.get("reincarnated", 0) + 1
            vbuild.ANON_IDS.add(id(ab))
            top.add(leaf(bus=ab), name="u%d" % i)
        del held
        return top

    def shape(k):
        """Hand-written designs for corners the generator reaches rarely (still run under every seed / order / history)."""
        from decimal import Decimal
        from hdl21.prefix import Prefix, Prefixed
        if k < 4:
            # generator calls whose parameters hold ONE number written four ways (1*µ = 1000*n = 0.001*m = 1.0*µ): what a call is
            # named must not depend on which spelling the process met first
            from hdl21.generators import Series
            num, pe = [("1", -6), ("1000", -9), ("0.001", -3), ("1.0", -6)][k]
            unit = h.Mos(w=Prefixed(number=Decimal(num), prefix=Prefix(pe)), l=Prefixed(number=Decimal("150"), prefix=Prefix(-9)))
            top = h.Module(name="ShapeSeries%d" % k)
            top.d, top.g, top.s, top.b = h.Signals(4)
            top.add(Series(unit=unit, nser=2 + k, conns=("d", "s"))(d=top.d, g=top.g, s=top.s, b=top.b), name="st")
            return top
        if k == 4:
            # one bundle-valued port reference driving two bundle ports of one instance
            B = h.Bundle(name="ShapeB"); B.add(h.Signal(name="x")); B.add(h.Signal(name="y", width=2))
            lo = h.Module(name="ShapeLo"); lo.add(B(port=True), name="out"); lo.add(h.R(r=1)(p=lo.out.x, n=lo.out.y[0]), name="r")
            mx = h.Module(name="ShapeMixer"); mx.add(B(port=True), name="rf"); mx.add(B(port=True), name="lo")
            mx.add(h.R(r=2)(p=mx.rf.x, n=mx.lo.x), name="r"); mx.add(h.C(c=1)(p=mx.rf.y[1], n=mx.lo.y[0]), name="c")
            top = h.Module(name="ShapeTwice")
            top.add(lo(), name="osc")
            top.add(mx(rf=top.osc.out, lo=top.osc.out), name="mix")
            return top
        if k == 5:
            # a reference cycle between two ports of one instance, plus a fan through a second instance
            L = h.ExternalModule(name="ShapeLatch", port_list=[h.Port(name="d"), h.Port(name="q"), h.Port(name="qb"), h.Port(name="en")], domain="verif")
            top = h.Module(name="ShapeCycle")
            top.en = h.Input()
            top.add(L()(en=top.en), name="latch")
            top.latch.q = top.latch.d
            top.latch.d = top.latch.q
            top.add(L()(en=top.en, d=top.latch.qb), name="l2")
            top.l2.q = top.l2.qb
            top.l2.qb = top.l2.q
            return top
        if k == 6:
            # a set-valued generator parameter
            import typing

            @h.paramclass
            class ShapeTags:
                tags = h.Param(dtype=typing.FrozenSet[str], desc="tags")
                n = h.Param(dtype=int, desc="n", default=1)

            def ShapeTagged(p: ShapeTags) -> h.Module:
                m = h.Module()
                m.add(h.Signal(name="s", width=len(p.tags)))
                return m
            G = h.generator(ShapeTagged)
            top = h.Module(name="ShapeSet")
            top.add(G(tags=frozenset(["alpha", "beta", "gamma", "delta", "epsilon", "zeta"]))(), name="a")
            top.add(G(tags=frozenset(["vdd", "vss", "bias"]), n=2)(), name="b")
            return top
        if k == 7:
            # a generator parameter that is a set of sets (members only partially ordered)
            import typing

            @h.paramclass
            class ShapeGroups:
                groups = h.Param(dtype=typing.FrozenSet[typing.FrozenSet[str]], desc="groups")

            def ShapeGrouped(p: ShapeGroups) -> h.Module:
                m = h.Module()
                m.add(h.Signal(name="s", width=len(p.groups)))
                return m
            G = h.generator(ShapeGrouped)
            top = h.Module(name="ShapeSetOfSets")
            top.add(G(groups=frozenset([frozenset(["a", "b"]), frozenset(["b", "c"]), frozenset(["c", "d", "e"]), frozenset(["x"]),
                                        frozenset(["a", "e"]), frozenset(["q", "r", "s"])]))(), name="a")
            return top
        if k == 8:
            # parameter values that come out of inexact prefixed arithmetic (a non-terminating quotient, a power)
            from hdl21.prefix import Prefix, Prefixed
            top = h.Module(name="ShapeQuotient")
            top.a, top.b = h.Signals(2)
            r = Prefixed(number=Decimal("1"), prefix=Prefix(3)) / 3
            c = Prefixed(number=Decimal("7"), prefix=Prefix(-12)) / Prefixed(number=Decimal("9"), prefix=Prefix(0))
            top.add(h.R(r=r)(p=top.a, n=top.b), name="r")
            top.add(h.C(c=c)(p=top.a, n=top.b), name="c")
            return top
        if 9 <= k <= 12:
            # PDK compiles of one device size written two ways (1*µ / 1000*n), per PDK: what a design compiles to must not
            # depend on which spelling the process compiled first
            from hdl21.prefix import Prefix, Prefixed
            from vlib.checks import c15
            pdkname = "sky130" if k <= 10 else "gf180"
            pdkmod = c15.imp(pdkname)
            num, pe = ("1", -6) if k % 2 else ("1000", -9)
            top = h.Module(name="ShapePdk%d" % k)
            top.d, top.g, top.s, top.b = h.Signals(4)
            top.add(h.Mos(w=Prefixed(number=Decimal(num), prefix=Prefix(pe)), l=Prefixed(number=Decimal("500"), prefix=Prefix(-9)),
                          tp=h.MosType.NMOS, family=h.MosFamily.CORE)(d=top.d, g=top.g, s=top.s, b=top.b), name="x")
            pdkmod.compile(top)
            return top
        if k in (13, 14):
            # two generators over ONE param-class, called with equal values that print differently (0.0 / -0.0): what one is
            # named must not depend on whether the other was called before
            import typing
            if "ZeroP" not in shape_state:
                @h.paramclass
                class ZeroP:
                    v = h.Param(dtype=float, desc="v")
                    n = h.Param(dtype=int, desc="n", default=2)
                shape_state["ZeroP"] = ZeroP
            ZeroP = shape_state["ZeroP"]

            def body(p: ZeroP) -> h.Module:
                m = h.Module()
                m.add(h.Signal(name="s", width=p.n))
                return m
            body.__name__ = "ShapeHi" if k == 13 else "ShapeLo"
            G = h.generator(body)
            top = h.Module(name="ShapeZero%d" % k)
            top.add(G(v=0.0 if k == 13 else -0.0, n=2)(), name="a")
            return top
        if k == 15:
            # a generator call whose parameter object is allocated - when earlier designs are discarded (drop) - at an address
            # that a parameter object of some earlier, dead call had: anything remembered per address must not leak into its name
            from decimal import Decimal
            from hdl21.prefix import Prefix, Prefixed
            from hdl21.generators import Series, SeriesParams
            dead = set()
            if drop:
                for i in range(300):
                    c = h.Mos(w=Prefixed(number=Decimal(i + 1), prefix=Prefix(-6)), l=Prefixed(number=Decimal("150"), prefix=Prefix(-9)))
                    c.name  # (reads the hashed name of its parameter object)
                    dead.add(id(c.params))
                    del c
            unit = h.Mos(w=Prefixed(number=Decimal("3"), prefix=Prefix(-6)), l=Prefixed(number=Decimal("150"), prefix=Prefix(-9)))
            held = []
            p = SeriesParams(unit=unit, nser=3, conns=("d", "s"))
            tries = 0
            while dead and id(p) not in dead and tries < 4000:
                held.append(p)
                p = SeriesParams(unit=unit, nser=3, conns=("d", "s"))
                tries += 1
            if dead and id(p) in dead:
                stats["param_objects_on_reused_addresses"] = stats.get("param_objects_on_reused_addresses", 0) + 1
            top = h.Module(name="ShapeParamChurn")
            top.d, top.g, top.s, top.b = h.Signals(4)
            top.add(Series(p)(d=top.d, g=top.g, s=top.s, b=top.b), name="st")
            del held
            return top
        if k == 16:
            # one SUB-bundle reference (`link.tx`) driving several bundle ports of one instance, twice over
            T = h.Bundle(name="ShapeLane"); T.add(h.Signal(name="p")); T.add(h.Signal(name="n"))
            L = h.Bundle(name="ShapeLink"); L.add(T(), name="tx"); L.add(T(), name="rx")
            lb = h.Module(name="ShapeLoopback")
            for pn in ("a", "b", "c", "d"):
                lb.add(T(port=True), name=pn)
            lb.add(h.R(r=1)(p=lb.a.p, n=lb.b.n), name="r1"); lb.add(h.R(r=2)(p=lb.c.p, n=lb.d.n), name="r2")
            top = h.Module(name="ShapeSubRefs")
            top.add(L(), name="link")
            top.add(lb(a=top.link.tx, b=top.link.tx, c=top.link.tx, d=top.link.rx), name="u0")
            top.add(lb(d=top.link.rx, c=top.link.rx, b=top.link.tx, a=top.link.rx), name="u1")
            return top
        raise ValueError(k)

    shape_state = {}
    NSHAPES = 16
    stats = {}
    items = job["items"]
    drop = job.get("drop", False)  # earlier designs are discarded and collected, so later objects re-use their addresses
    import gc
    for pos in job["order"]:
        it = items[pos]
        noise(job.get("noise", {}).get(str(pos)))
        if drop:
            del keep[:]
            top = b = mods = None
            gc.collect()
        try:
            if "spec" in it:
                b = Builder(it["spec"])
                keep.append(b)
                top = b.module(it["spec"]["top"])
            elif "shape" in it:
                top = shape(it["shape"])
                keep.append(top)
            elif "churn" in it:
                top = churn(it["churn"], drop)
                keep.append(top)
            elif "pdk_item" in it:
                from vlib.checks import c15
                case = c15.C06_ITEMS[it["pdk_item"]]
                pdkmod = c15.imp(case["target"])
                mods, _ = c15.build(case["reqs"], case["shape"])
                top = mods[-1]
                keep.append(mods)
                pdkmod.compile(top)
            else:
                top = corpus.items(job.get("tier", "quick"))[it["corpus"]][1]()
        except Exception as e:
            out[it["key"]] = {"proto": "BUILD-EXC:" + type(e).__name__}
            continue
        out[it["key"]] = digest(top)
    out["__stats__"] = stats
    json.dump(out, open(sys.argv[2], "w"))


if __name__ == "__main__":
    main()
