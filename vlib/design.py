"""Shared evaluation of one design spec in a pristine child process:
build with Hdl21, export, read the package back, compare with the reference interpreter."""
import traceback
from . import env, model, pkgread, iso
from .build import Builder

TAG_PARAMS = {"prim:" + v[0]: v[3] for v in model.PRIMS.values()}


def exc_bucket(e, tb=None):
    """Root-cause bucket of an exception escaping Hdl21: type + innermost hdl21 frame."""
    import re
    tb = tb or traceback.extract_tb(e.__traceback__)
    where = "?"
    for fr in reversed(tb):
        fn = fr.filename
        if "/hdl21/" in fn or "/pdks/" in fn:
            where = fn.split("/hdl21/")[-1] if "/hdl21/" in fn else fn.split("/pdks/")[-1]
            where = where + ":" + fr.name
            break
    return "%s@%s" % (type(e).__name__, where)


def msg_bucket(e):
    import re
    s = str(e).strip().split("\n")[-1]
    s = re.sub(r"0x[0-9a-f]+", "0x", s)
    s = re.sub(r"[A-Za-z_]*\d+[A-Za-z_0-9]*", "N", s)
    return s[:70]


def export(spec, builder=None, top=None):
    """-> (pkg, top_module) ; raises whatever Hdl21 raises"""
    env.setup_paths()
    import hdl21 as h
    b = builder or Builder(spec)
    topm = b.module(spec["top"] if top is None else top)
    pkg = h.to_proto(topm)
    topm._verif_conn_mismatches = list(b.conn_mismatches)
    return pkg, topm


def spice_readable(spec):
    """Leaves the spice reader understands (external modules, ideal R/C/L/VCVS) and plainly named modules."""
    for c in spec["cells"]:
        if c["kind"] == "prim" and c["prim"] not in ("R", "C", "L", "Vcvs"):
            return False
        if c.get("domain", "verif") != "verif":
            return False  # two external modules of one name: the spice text cannot tell them apart
    return all(m.get("style", "proc") != "gen" for m in spec["modules"])


def evaluate(spec, want_netlist=True):
    """Run in a child.  Returns a dict verdict:
       {"status": "agree"|"reject"|"fail"|"model_reject"|"inconclusive", "sig":..., "detail":..., "pkg": bytes?}"""
    try:
        want = model.flatten(spec)
    except model.ModelError as e:
        return {"status": "model_reject", "detail": str(e)}
    try:
        pkg, topm = export(spec)
    except Exception as e:
        return {"status": "reject", "sig": exc_bucket(e), "detail": "%s: %s" % (type(e).__name__, str(e)[-600:])}
    out = {"pkg": pkg.SerializeToString(deterministic=True)}
    mism = getattr(topm, "_verif_conn_mismatches", [])
    if mism:
        out.update(status="fail", sig="conns_out_of_step", detail="; ".join(mism[:3]), closure=[])
        return out
    errs = pkgread.closure_errors(pkg)
    out["closure"] = errs
    try:
        got = pkgread.flatten(pkg, tag_params=TAG_PARAMS)
    except pkgread.PkgError as e:
        out.update(status="fail", sig="malformed_package", detail=str(e))
        return out
    verdict, why = iso.compare(want, got)
    if verdict == "iso" and want_netlist and spice_readable(spec):
        # second, independent reading: the SPICE text written by the vlsirtools netlister
        import io
        from . import spiceread
        env.setup_paths()
        import hdl21 as h
        try:
            sio = io.StringIO()
            h.netlist(pkg, sio, fmt="spice")
            got2 = spiceread.flatten(sio.getvalue(), spec, pkg.modules[-1].name.split(".")[-1])
            v2, why2 = iso.compare(want, got2)
            out["spice"] = v2
            if v2 == "diff":
                out.update(status="fail", sig="connectivity_spice_text", detail="SPICE netlist text disagrees with the design: " + why2)
                return out
        except spiceread.SpiceError as e:
            out["spice"] = "unreadable: %s" % str(e)[:120]
        except Exception as e:
            out["spice"] = "netlister: %s" % type(e).__name__
    if verdict == "iso":
        out.update(status="agree")
    elif verdict == "inconclusive":
        out.update(status="inconclusive", detail=why)
    else:
        out.update(status="fail", sig="connectivity", detail=why)
    return out
