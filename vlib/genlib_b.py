"""A tiny 'library' holding a generator called Unit - its twin module holds another generator of the same name.
Used by C09: generated modules of same-named generators from two python modules are different modules with different names."""
import hdl21 as h


@h.paramclass
class UP:
    w = h.Param(dtype=int, desc="width", default=1)


@h.generator
def Unit(p: UP) -> h.Module:
    m = h.Module()
    m.add(h.Signal(name="s", width=p.w))
    return m
