"""Corpus of designs from the repository: the examples and the built-in generators over their
parameter ranges.  Each item is (name, thunk) ; the thunk runs inside a pristine child and
returns the Elaboratable(s) to export."""
from . import env


def items(tier="quick"):
    N = 6 if tier == "thorough" else 4
    out = []

    def add(name, fn):
        out.append((name, fn))

    # ---- examples
    def rladder(nseg):
        def f():
            from examples import rdac
            from hdl21.prefix import µ
            return rdac.rladder(rdac.RLadderParams(nseg=nseg, res=rdac.PdkResistor(w=4 * µ, l=10 * µ)))
        return f
    for nseg in list(range(1, N + 1)) + [15]:
        add("rdac.rladder(nseg=%d)" % nseg, rladder(nseg))

    def muxtree(nbit, which):
        def f():
            from examples import rdac
            from hdl21.prefix import n
            nm = rdac.Nch(rdac.PdkMosParams(l=1 * n)) if which in ("both", "n") else None
            pm = rdac.Pch(rdac.PdkMosParams(l=1 * n)) if which in ("both", "p") else None
            return rdac.mux_tree(rdac.MuxTreeParams(nbit=nbit, mux_params=rdac.PassGateParams(nmos=nm, pmos=pm)))
        return f
    for nbit in range(1, N + 1):
        for which in ("both", "n", "p"):
            add("rdac.mux_tree(nbit=%d,%s)" % (nbit, which), muxtree(nbit, which))

    def encoder(w):
        def f():
            from examples import encoder
            return encoder.OneHotEncoder(width=w)
        return f
    for w in (2, 4, 6, 8) + ((10,) if tier == "thorough" else ()):
        add("encoder.OneHotEncoder(width=%d)" % w, encoder(w))

    def ro(stages, rows, tb):
        def f():
            from examples import ro
            p = ro.RoParams(stages=stages, rows=rows)
            return ro.RoTb(ro.TbParams(ro=p, code=min(3, rows))) if tb else ro.Ro(p)
        return f
    for stages in range(1, N + 1):
        for rows in range(1, 4):
            add("ro.Ro(stages=%d,rows=%d)" % (stages, rows), ro(stages, rows, False))
    add("ro.RoTb(default)", ro(3, 3, True))

    def idac(width):
        def f():
            from examples import idac
            p = idac.Params(mnsw=idac.n(nfin=4, nf=2, m=1, stack=1), mnbi=idac.n(nfin=4, nf=1, m=2, stack=12),
                            width=width, pdk=idac.PdkEnum.FAKEFET)
            return idac.NmosIdac(p)
        return f
    for width in range(1, N + 1):
        add("idac.NmosIdac(width=%d)" % width, idac(width))

    def simple(modname, attr, call=False):
        def f():
            import importlib
            m = importlib.import_module("examples." + modname)
            o = getattr(m, attr)
            return o() if call else o
        return f
    add("diff_ota.DiffOta()", simple("diff_ota", "DiffOta", True))
    add("bundles.TestSystem", simple("bundles", "TestSystem"))

    def mos_sim():
        from examples import mos_sim
        return mos_sim.MosDcopSim.Tb
    add("mos_sim.MosDcopSim.Tb", mos_sim)

    # ---- built-in generators
    def series(unit, conns, n):
        def f():
            import hdl21 as h
            from hdl21.generators import Series
            u = {"R": lambda: h.R(r=1000), "C": lambda: h.C(c=1), "Mos": lambda: h.Mos(), "Vcvs": lambda: h.Vcvs(gain=2)}[unit]()
            return Series(unit=u, conns=conns, nser=n)
        return f
    for unit, pairs in (("R", [("p", "n"), ("n", "p")]), ("C", [("p", "n")]), ("Mos", [("d", "s"), ("s", "d"), ("g", "b")]),
                        ("Vcvs", [("p", "n"), ("cp", "cn"), ("p", "cp")])):
        for conns in pairs:
            for n in range(1, N + 1):
                add("Series(%s,%s,%d)" % (unit, conns, n), series(unit, conns, n))

    def mosstack(n):
        def f():
            from hdl21.generators import MosStack
            return MosStack(nser=n)
        return f
    for n in range(1, N + 1):
        add("MosStack(nser=%d)" % n, mosstack(n))

    def cmdm():
        from hdl21.generators import CmDmGen
        return CmDmGen()
    add("CmDmGen()", cmdm)

    def balun():
        from hdl21.generators import Balun
        return Balun()
    add("Balun()", balun)
    return out


def export_item(index, tier="quick"):
    """Run in a pristine child: -> {"name", "pkg": bytes} or {"name", "error": text}"""
    env.setup_paths()
    import hdl21 as h
    name, fn = items(tier)[index]
    try:
        top = fn()
        pkg = h.to_proto(top)
    except Exception as e:
        return {"name": name, "error": "%s: %s" % (type(e).__name__, str(e)[-300:])}
    return {"name": name, "pkg": pkg.SerializeToString(deterministic=True)}
