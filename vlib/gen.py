"""Hypothesis strategies for design specs (see model.py for the spec format).

Everything is constructed, nothing is filtered: for a port of width w the generator builds an
expression of width w.  All random choices go through Hypothesis draws."""
import json
from hypothesis import strategies as st

PORT_NAMES = ["a", "b", "c", "d", "e", "q", "z", "y"]
LEAF_NAMES = ["x", "y", "z", "w"]
SUB_NAMES = ["u", "v", "t"]
DIRS = ["in", "out", "inout", "port"]
SIG_KINDS = ["in", "out", "inout", "port", "plain"]


class D:
    """Thin convenience wrapper around a Hypothesis draw function."""

    def __init__(self, draw):
        self.draw = draw

    def int(self, a, b):
        return self.draw(st.integers(a, b))

    def bool(self, pct=50):
        return self.draw(st.integers(0, 99)) < pct

    def choice(self, seq):
        return self.draw(st.sampled_from(list(seq)))

    def weighted(self, pairs):
        tot = sum(w for _, w in pairs)
        r = self.int(0, tot - 1)
        for v, w in pairs:
            if r < w:
                return v
            r -= w
        return pairs[-1][0]

    def width(self, wide=True):
        return self.weighted([(1, 45), (2, 18), (3, 14), (4, 10)] + ([(5, 4), (6, 3), (7, 2), (9, 2), (8, 2)] if wide else []))

    def split(self, w, k):
        """Split w into k positive parts."""
        cuts = sorted(self.draw(st.lists(st.integers(1, w - 1), min_size=k - 1, max_size=k - 1, unique=True)))
        parts, prev = [], 0
        for c in cuts + [w]:
            parts.append(c - prev)
            prev = c
        return parts


class Opts:
    def __init__(self, **kw):
        self.max_modules = 4
        self.max_insts = 5
        self.max_depth = 3
        self.bundles = True
        self.arrays = True
        self.pairs = True
        self.prefs = True
        self.noconns = True
        self.prims = True
        self.slices = True
        self.concats = True
        self.styles = True
        self.bundle_ports = True
        self.named_nc = True
        self.wide = True
        self.whole_only = False  # C16: whole-signal connections only
        self.leaf_everywhere = False
        self.min_modules = 1
        self.adversarial_leaf_names = False
        self.pair_pct = 12
        self.bundle_port_pct = 50
        self.strided = True
        self.anon_prefs = True
        self.same_name_ext = False  # external modules of one name in two domains
        self.open_pct = 8        # ports left without a connection of their own (they must end up referenced)
        self.anon_pref_pct = 25  # anonymous-bundle members that are port references
        self.array_pct = 22
        self.pref_weight = 14    # weight of a whole-port reference among the kinds of a top-level connection expression
        self.history = False  # C04: an interleaved history of connect / replace / disconnect operations per module
        self.avoid_known = True  # do not construct the triggers of open known findings (counted as redirects)
        for k, v in kw.items():
            if not hasattr(self, k):
                raise AttributeError(k)
            setattr(self, k, v)


def _has_pref(e):
    if not isinstance(e, list) or not e:
        return False
    if e[0] == "pref":
        return True
    return any(_has_pref(x) for x in e[1:] if isinstance(x, list)) or (e[0] in ("cat", "anon") and any(_has_pref(x if e[0] == "cat" else x[1]) for x in e[1]))


class ModGen:
    decoy = False
    anon_member_refs = None

    def __init__(self, d, spec, midx, opts, feats):
        self.d, self.spec, self.midx, self.o, self.feats = d, spec, midx, opts, feats
        self.sigs = []  # [name, width, dir]
        self.buns = []  # [name, bidx, port, flipped, role, via]
        self.insts = []
        self.nsig = 0
        self.ncid = 0
        self.nc_shared = None

    # ---- helpers ----------------------------------------------------------
    def new_sig(self, width):
        name = "s%d" % self.nsig
        self.nsig += 1
        self.sigs.append([name, width, "sig"])
        return name

    def sig_of_width(self, pred, make):
        """An existing signal whose width satisfies pred (60%), else a new one of width make()."""
        cands = [s for s in self.sigs if pred(s[1])]
        if cands and self.d.bool(70):
            return self.d.choice(cands)
        w = make()
        name = self.new_sig(w)
        return [name, w, "sig"]

    def bundle_leaves(self, bidx, prefix=()):
        from .model import bundle_leaves
        return bundle_leaves(self.spec, bidx)

    def bun_of_def(self, bidx):
        cands = [b for b in self.buns if b[1] == bidx and not b[2]]
        cands += [b for b in self.buns if b[1] == bidx and b[2]]
        if cands and self.d.bool(65):
            return self.d.choice(cands)[0]
        name = "g%d" % len(self.buns)
        self.buns.append([name, bidx, False, self.d.bool(30), None, "ctor"])
        return name

    # ---- typed expression generation --------------------------------------
    def slice_index(self, W, a, w, ref_parent=False):
        """An index selecting bits [a, a+w) of a width-W parent, in one of the equivalent unit-step forms."""
        if ref_parent:
            return [a, a + w, None]
        forms = [[a, a + w, None]]
        if w == 1:
            forms += [a, a - W]
        forms.append([a - W, (a + w - W) if a + w < W else None, None])
        if a == 0:
            forms.append([None, a + w, None])
        if a + w == W:
            forms.append([a, None, None])
        forms.append([a, a + w, 1])
        f = self.d.choice(forms)
        if isinstance(f, int) and f < 0 or (isinstance(f, list) and any(isinstance(x, int) and x < 0 for x in f[:2])):
            self.feats.add("negative_index")
        return f

    def expr(self, w, depth=0, allow_ref=True, cur=None):
        d, o = self.d, self.o
        opts = [("sig", 40)]
        if o.whole_only:
            opts = [("sig", 100)]
        else:
            if o.slices:
                opts.append(("slice_sig", 25))
                if o.strided and w >= 2:
                    opts.append(("slice_strided", 7))
            if depth < o.max_depth:
                if o.concats:
                    opts.append(("cat", 22 if w >= 2 else 4))
                if o.slices and o.concats:
                    opts.append(("slice_cmp", 12))
            if o.bundles and any(True for b in self.buns):
                opts.append(("bref", 35 if o.adversarial_leaf_names else 10))
            if o.prefs and allow_ref and self.ref_targets(w, cur, inner=(depth > 0)):
                opts.append(("pref", o.pref_weight if depth == 0 else 6))
        kind = d.weighted(opts)
        if kind == "sig":
            s = self.sig_of_width(lambda x: x == w, lambda: w)
            return ["sig", s[0]]
        if kind == "slice_sig":
            s = self.sig_of_width(lambda x: x > w, lambda: w + d.int(1, 4))
            a = d.int(0, s[1] - w)
            self.feats.add("slice")
            return ["slice", ["sig", s[0]], self.slice_index(s[1], a, w)]
        if kind == "slice_strided":
            # w >= 2 bits taken with a step other than 1 (reversed and / or strided), bounds explicit and in range
            step = d.choice([-1, -1, 2, -2, 3, -3])
            span = (w - 1) * abs(step) + 1
            if depth < o.max_depth and o.concats and d.bool(30):
                W = span + d.int(0, 2)
                parent = self.expr(W, depth + 1, False, cur)
                self.feats.add("strided_slice_of_" + {"cat": "concat", "slice": "slice", "sig": "signal"}.get(parent[0], parent[0]))
            else:
                sg = self.sig_of_width(lambda x: x >= span, lambda: span + d.int(0, 2))
                W = sg[1]
                parent = ["sig", sg[0]]
            a = d.int(0, W - span)
            if step > 0:
                idx = [a, a + span if d.bool(60) or a + span < W else None, step]
            else:
                idx = [a + span - 1, (a - 1) if a > 0 else None, step]
            self.feats.add("strided_slice")
            if step < 0:
                self.feats.add("reversed_slice")
            return ["slice", parent, idx]
        if kind == "cat":
            k = d.int(2, min(3, w)) if w >= 2 else 1
            if k == 1 or d.bool(8):
                k = 1
                self.feats.add("single_part_concat")
            parts = [self.expr(pw, depth + 1, allow_ref, cur) for pw in (d.split(w, k) if k > 1 else [w])]
            self.feats.add("concat")
            if any(p[0] == "cat" for p in parts):
                self.feats.add("nested_concat")
            return ["cat", parts]
        if kind == "slice_cmp":
            extra = d.int(1, 3)
            inner = self.expr(w + extra, depth + 1, allow_ref, cur)
            a = d.int(0, extra)
            self.feats.add("slice_of_" + {"cat": "concat", "slice": "slice", "sig": "signal", "pref": "portref", "bref": "bundleref"}.get(inner[0], inner[0]))
            refp = inner[0] in ("pref", "bref")
            return ["slice", inner, self.slice_index(w + extra, a, w, ref_parent=refp)]
        if kind == "bref":
            # a leaf of some bundle instance
            cands = []
            for b in self.buns:
                for path, lw, *_ in self.bundle_leaves(b[1]):
                    if lw >= w:
                        cands.append((b[0], path, lw))
            if not cands:
                s = self.sig_of_width(lambda x: x == w, lambda: w)
                return ["sig", s[0]]
            bname, path, lw = d.choice(cands)
            e = ["bun", bname]
            for seg in path:
                e = ["bref", e, seg]
            self.feats.add("bundle_ref")
            if lw == w:
                return e
            a = d.int(0, lw - w)
            self.feats.add("slice_of_bundleref")
            return ["slice", e, [a, a + w, None]]
        if kind == "pref":
            tg = d.choice(self.ref_targets(w, cur, inner=(depth > 0)))
            self.feats.add("portref" if depth == 0 else "portref_in_expr")
            self.referenced.add((tg[0], tg[1]))
            e = ["pref", tg[0], tg[1]]
            if tg[2] == w:
                return e
            a = d.int(0, tg[2] - w)
            self.feats.add("slice_of_portref")
            return ["slice", e, [a, a + w, None]]
        raise AssertionError(kind)

    def ref_targets(self, w, cur, inner):
        """Ports that may be referenced: scalar ports of plain instances, not no-connected, not `cur`.
        A reference inside a slice/concat (inner) may only name a port of an earlier instance whose own
        connection contains no reference (no self-referential bit equations)."""
        out = []
        for (iname, pname), info in self.portinfo.items():
            if (iname, pname) == cur or info["kind"] != "inst" or info["bundle"] is not None:
                continue
            if info["plan"] == "nc" and not (self.decoy and not inner):
                continue  # (a decoy connection - replaced before the history ends - may also name a port that ends up no-connected)
            if inner:
                if not info["done"] or info["has_ref"] or info["plan"] != "explicit":
                    continue
                if info["width"] < w:
                    continue
            else:
                if info["width"] != w:
                    continue
                if cur is not None and self.would_cycle_through_inner(cur, (iname, pname)):
                    continue
            out.append((iname, pname, info["width"]))
        return out

    def would_cycle_through_inner(self, cur, tgt):
        return False

    def bundle_expr(self, bidx, depth=0, cur=None):
        """A bundle-valued expression matching bundle definition bidx."""
        d, o = self.d, self.o
        opts = [("inst", 45), ("anon", 30)]
        # sub-bundle reference: some bundle instance in this module whose def has a sub of def bidx
        subc = []
        for b in self.buns:
            for sub in self.spec["bundles"][b[1]]["subs"]:
                if sub[1] == bidx:
                    subc.append((b[0], sub[0]))
        if subc:
            opts.append(("subref", 25))
        if o.prefs:
            pc = [(k, v) for k, v in self.portinfo.items() if v["bundle"] == bidx and k != cur and v["kind"] == "inst" and v["plan"] != "nc"]
            if pc:
                opts.append(("pref", 15))
        kind = d.weighted(opts)
        if kind == "inst":
            self.feats.add("bundle_conn")
            return ["bun", self.bun_of_def(bidx)]
        if kind == "subref":
            bname, sub = d.choice(subc)
            self.feats.add("subbundle_ref")
            return ["bref", ["bun", bname], sub]
        if kind == "pref":
            (iname, pname), _ = d.choice(pc)
            self.referenced.add((iname, pname))
            self.feats.add("bundle_portref")
            return ["pref", iname, pname]
        # anonymous bundle
        b = self.spec["bundles"][bidx]
        members = []
        for name, width, _k in b["sigs"]:
            tg = self.ref_targets(width, cur, inner=False) if (o.prefs and o.anon_prefs and cur is not None and d.bool(o.anon_pref_pct)) else []
            if tg:
                # a member that is itself a reference to another instance's port (which may have no connection of its own)
                opn = [t for t in tg if self.portinfo[(t[0], t[1])]["plan"] == "open"]
                t = d.choice(opn if opn and d.bool(60) else tg)
                self.referenced.add((t[0], t[1]))
                self.anon_member_refs.add((t[0], t[1]))
                self.feats.add("portref_as_anon_member")
                members.append([name, ["pref", t[0], t[1]]])
                continue
            members.append([name, self.expr(width, 1, allow_ref=False, cur=cur)])
        for sub in b["subs"]:
            if depth < 2:
                members.append([sub[0], self.bundle_expr(sub[1], depth + 1, cur)])
            else:
                members.append([sub[0], ["bun", self.bun_of_def(sub[1])]])
        self.feats.add("anon_bundle")
        if len(members) > 1 and d.bool(50):
            # members are matched by name: written in another order than the Bundle declares them
            pool, members = list(members), []
            while pool:
                x = d.choice(pool)
                pool.remove(x)
                members.append(x)
            self.feats.add("anon_bundle_members_reordered")
        e = ["anon", members]
        if depth == 0 and d.bool(40):
            e.append("dict")
            self.feats.add("dict_shorthand")
        return e

    # ---- module -----------------------------------------------------------
    def generate(self, is_top):
        d, o, spec = self.d, self.o, self.spec
        from .model import target_iface
        nports = d.int(0 if (is_top or d.bool(12)) else 1, 3)  # sub-modules without any port are legal too
        for k in range(nports):
            self.sigs.append(["p%d" % k, d.width(o.wide), d.choice(DIRS)])
        for k in range(d.int(1, 3)):
            self.new_sig(d.width(o.wide))
        if o.bundles and spec["bundles"]:
            nb = [b for b in range(len(spec["bundles"])) if not spec["bundles"][b].get("builtin")]
            # (with adversarial leaf names the top module gets no bundle ports: its flattened port names would be the
            #  elaborator's to choose, and the comparison keys top-level ports by name)
            if nb and o.bundle_ports and d.bool(o.bundle_port_pct) and not (is_top and o.adversarial_leaf_names):
                bi = nb[-1] if (o.adversarial_leaf_names and d.bool(70)) else d.choice(nb)  # (the later definitions hold the sub-bundles)
                for k in range(d.weighted([(1, 70), (2, 25), (3, 5)])):
                    if k and d.bool(40):
                        bi = d.choice(nb)  # further bundle ports are mostly of the same definition
                    role = d.choice([None, "A", "B", "C"]) if spec["bundles"][bi].get("roles") else None
                    flipped = d.bool(30)
                    self.buns.append(["bp%d" % k, bi, True, flipped, role, d.choice(["ctor", "flipped"]) if flipped else "ctor"])
                    self.feats.add("bundle_port" if not k else "several_bundle_ports")
            for k in range(d.int(1, 3) if o.adversarial_leaf_names else d.int(0, 2)):
                if nb:
                    bi = nb[-1] if (o.adversarial_leaf_names and d.bool(70)) else d.choice(nb)
                    flipped = d.bool(25)
                    self.buns.append(["g%d" % len(self.buns), bi, False, flipped, None, "ctor"])
        # bundle instances alike in everything but their name are sometimes written as one multiplication: a, b = 2 * B(...)
        groups = {}
        for b in self.buns:
            if b[5] == "ctor":
                groups.setdefault(json.dumps(b[1:5]), []).append(b)
        for g in groups.values():
            if len(g) >= 2 and d.bool(50):
                for b in g:
                    b[5] = "mult"
                self.feats.add("bundle_insts_by_mult")
        # ... and an instance whose flip state is the opposite of an otherwise alike earlier one as h.flipped(<that one>)
        for k, b in enumerate(self.buns):
            if b[5] != "ctor":
                continue
            for a in self.buns[:k]:
                if a[1] == b[1] and a[2] == b[2] and a[4] == b[4] and bool(a[3]) != bool(b[3]) and d.bool(40):
                    b[5] = "flipof:" + a[0]
                    self.feats.add("bundle_inst_flipped_sibling")
                    break
        # instances
        ninst = d.int(1, o.max_insts)
        targets = [["cell", k] for k in range(len(spec["cells"]))]
        mods = [["mod", k] for k in range(self.midx)]
        plan = []
        for k in range(ninst):
            if mods and d.bool(45 if k else 75) and not o.leaf_everywhere:
                of = d.choice(mods)
            elif mods and o.leaf_everywhere and d.bool(50):
                of = d.choice(mods)
            else:
                of = d.choice(targets)
            iface = target_iface(spec, of)
            kind = "inst"
            if o.arrays and d.bool(o.array_pct):
                kind = "array"
            elif o.pairs and d.bool(o.pair_pct) and all(p[0] == "sig" for p in iface):
                kind = "pair"
            inst = {"name": "i%d" % k, "of": of, "kind": kind, "conns": []}
            if kind == "array":
                inst["n"] = d.int(1, 4) if not d.bool(7) else d.int(10, 13)  # (a few arrays long enough for two-digit element names)
                if inst["n"] >= 10:
                    self.feats.add("array_of_10_or_more")
                via = d.weighted([("ctor", 50), ("mult", 25), ("mult_late", 25)])
                if via != "ctor":
                    inst["via"] = via
                self.feats.add("array")
            if kind == "pair":
                self.feats.add("pair")
                if o.bundles and d.bool(40):
                    # not h.Pair but an InstanceBundleType of the design's own, its members underscore variants of each other
                    inst["members"] = d.choice([["x", "x_"], ["p", "p_"], ["a", "b", "a_"], ["n", "n_", "n__"], ["q"]])
                    self.feats.add("own_instance_bundle_type")
            plan.append((inst, iface))
        # per-port plans
        self.portinfo = {}
        self.referenced = set()
        self.anon_member_refs = set()
        for inst, iface in plan:
            for p in iface:
                pl = "explicit"
                if o.noconns and d.bool(10):
                    pl = "nc"
                elif o.prefs and inst["kind"] == "inst" and d.bool(o.open_pct):
                    pl = "open"  # left unconnected; must end up referenced by someone
                self.portinfo[(inst["name"], p[1])] = {
                    "kind": inst["kind"], "width": p[2] if p[0] == "sig" else None,
                    "bundle": p[2] if p[0] == "bun" else None, "plan": pl, "done": False, "has_ref": False}
        tag0 = self.midx * 100
        for ii, (inst, iface) in enumerate(plan):
            inst["tag"] = tag0 + ii  # the first tag is 0: a parameter value that is falsy yet set
            order = list(iface)
            for p in order:
                key = (inst["name"], p[1])
                info = self.portinfo[key]
                if info["plan"] == "open":
                    continue
                e = self.conn_for(inst, p, key, info)
                inst["conns"].append([p[1], e])
                info["done"] = True
                info["has_ref"] = _has_ref(e)
            self.insts.append(inst)
        # open ports nobody referenced get an explicit connection after all
        for inst, iface in plan:
            for p in iface:
                key = (inst["name"], p[1])
                info = self.portinfo[key]
                if info["plan"] == "open":
                    if key in self.referenced:
                        self.feats.add("portref_root_unconnected")
                        continue
                    info["plan"] = "explicit"
                    e = self.conn_for(inst, p, key, info, allow_ref=False)
                    inst["conns"].append([p[1], e])
        # classify the direct port-reference structure: chains, fans and cycles
        direct = {}
        for inst in self.insts:
            for pn, e in inst["conns"]:
                if e[0] == "pref":
                    direct[(inst["name"], pn)] = (e[1], e[2])
        indeg = {}
        for tgt in direct.values():
            indeg[tgt] = indeg.get(tgt, 0) + 1
        if any(v >= 2 for v in indeg.values()):
            self.feats.add("portref_fan")
        if any(t in direct for t in direct.values()):
            self.feats.add("portref_chain")
        for start in direct:
            seen, cur = set(), start
            while cur in direct and cur not in seen:
                seen.add(cur)
                cur = direct[cur]
            if cur in seen:
                self.feats.add("portref_cycle")
                break
        m = {"name": "M%d" % self.midx, "sigs": self.sigs, "bundles": self.buns, "insts": self.insts}
        if o.history:
            m["history"] = self.make_history()
        if o.styles:
            m["style"] = d.weighted([("proc", 50), ("class", 30), ("gen", 20)])
            m["connstyle"] = d.choice(["call", "setattr", "connect", "mixed"])
            m["late"] = d.bool(50)
            if m["style"] == "proc" and d.bool(25):
                m["bare"] = True  # created from exec'd source: no defining python module, bare exported name
                self.feats.add("style_exec_bare_name")
            self.feats.add("style_" + m["style"])
        return m

    def make_history(self):
        """Operation history per module: every port gets 0-3 earlier (decoy) connections of any kind, possibly
        disconnects and replace() calls, and finally its real connection; the per-port sequences are interleaved."""
        from .model import target_iface
        d = self.d
        saved = self.referenced
        self.referenced = set()  # references made by decoys are not live in the final mapping
        self.decoy = True
        per_port = []
        for inst in self.insts:
            final = {}
            for pn, e in inst["conns"]:
                final[pn] = e
            for p in target_iface(self.spec, inst["of"]):
                key = (inst["name"], p[1])
                info = self.portinfo[key]
                ops = []
                connected = None
                for _ in range(d.weighted([(0, 30), (1, 40), (2, 20), (3, 10)])):
                    if connected is not None and d.bool(45 if connected == "portref" else 20):
                        ops.append([inst["name"], p[1], None, "disconnect"])
                        self.feats.add("op_disconnect")
                        connected = None
                        continue
                    fake = dict(info, plan=("nc" if d.bool(15) else "explicit"))
                    # (an instance that is multiplied into an array later is a plain instance while its decoys are made)
                    e = None
                    if inst.get("via") == "mult_late" and p[0] == "sig" and d.bool(35):
                        # the template instance of a later `n * inst` holds a reference - preferably to a port that ends up
                        # no-connected - when it is multiplied
                        tg = self.ref_targets(p[2], key, inner=False)
                        if d.bool(50):
                            tg = [t for t in tg if self.portinfo[(t[0], t[1])]["plan"] == "nc"] or tg
                        else:
                            # ... or to a port that live references of member instances point at too (a reference-only net first),
                            # best of all one whose referrers are referenced in turn
                            live = {(i_["name"], pn_): (e_[1], e_[2]) for i_ in self.insts for pn_, e_ in i_["conns"] if e_[0] == "pref"}
                            live_t = set(live.values())
                            chained = {t_ for s_, t_ in live.items() if s_ in live_t}
                            tg = ([t for t in tg if (t[0], t[1]) in chained] or [t for t in tg if (t[0], t[1]) in live_t and self.portinfo[(t[0], t[1])]["plan"] == "open"]
                                  or [t for t in tg if (t[0], t[1]) in live_t] or tg)
                        if tg:
                            t = d.choice(tg)
                            e = ["pref", t[0], t[1]]
                            self.feats.add("template_holds_portref")
                    if e is None and inst["kind"] == "inst" and p[0] == "sig" and d.bool(25):
                        # a decoy tied directly to a port that has no connection of its own and lives on references only
                        tg = [t for t in self.ref_targets(p[2], key, inner=False) if self.portinfo[(t[0], t[1])]["plan"] == "open"]
                        tg = [t for t in tg if (t[0], t[1]) in self.anon_member_refs] or tg  # preferably one kept alive inside an anonymous bundle
                        if tg:
                            t = d.choice(tg)
                            e = ["pref", t[0], t[1]]
                            self.feats.add("decoy_reference_to_open_port")
                    if e is None and inst["kind"] == "inst" and p[0] == "sig" and d.bool(15):
                        # a decoy that is (a slice of) a reference to a port of an InstanceArray which ends up no-connected
                        # (not of an array made by a later `n * inst`: an instance that is referenced may not be multiplied)
                        late_arrays = {i2["name"] for i2 in self.insts if i2.get("via") == "mult_late"}
                        ta = [(k2, v2) for k2, v2 in self.portinfo.items() if v2["kind"] == "array" and v2["plan"] == "nc" and v2["width"] is not None and k2[0] not in late_arrays
                              and v2["width"] >= p[2] and k2[0] != inst["name"] and k2[1] not in ("n", "of", "name", "conns")]  # (`arr.n` is the array's size)
                        if ta:
                            (an, ap), av = d.choice(ta)
                            e = ["pref", an, ap] if av["width"] == p[2] and d.bool(40) else \
                                ["slice", ["pref", an, ap], self.slice_index(av["width"], d.int(0, av["width"] - p[2]), p[2], ref_parent=True)]
                            self.feats.add("decoy_slice_of_array_port_reference")
                    if e is None:
                        e = self.conn_for(inst, p, key, fake, allow_ref=(inst["kind"] == "inst" or inst.get("via") == "mult_late"))
                    op = "replace" if connected is not None and d.bool(30) else d.choice(["call", "setattr", "connect"])
                    if connected is not None:
                        self.feats.add("T:%s->%s" % (connected, _ekind(e)))
                        if connected in ("portref", "bundle", "anon", "noconn", "bundleref"):
                            self.feats.add("replaced_ref_like")
                    ops.append([inst["name"], p[1], e, op])
                    self.feats.add("op_" + op)
                    connected = _ekind(e)
                if p[1] in final:
                    op = "replace" if connected is not None and d.bool(30) else d.choice(["call", "setattr", "connect"])
                    if connected is not None:
                        self.feats.add("T:%s->%s" % (connected, _ekind(final[p[1]])))
                        if connected in ("portref", "bundle", "anon", "noconn", "bundleref"):
                            self.feats.add("replaced_ref_like")
                    ops.append([inst["name"], p[1], final[p[1]], op])
                elif connected is not None:
                    ops.append([inst["name"], p[1], None, "disconnect"])
                    self.feats.add("op_disconnect_final")
                if ops:
                    per_port.append(ops)
        # scenario: a port that lives on references from inside anonymous bundles only is, for a while, also tied directly to
        # another port, which is then disconnect()-ed and re-made
        direct_final = {(e[1], e[2]) for inst in self.insts for _pn, e in inst["conns"] if e[0] == "pref"}
        for T in sorted(self.anon_member_refs or ()):
            if self.portinfo[T]["plan"] != "open" or T in direct_final or not d.bool(80):
                continue
            cands = [ops for ops in per_port if ops and ops[0][0] != T[0] and self.portinfo.get((ops[0][0], ops[0][1]), {}).get("kind") == "inst"
                     and self.portinfo[(ops[0][0], ops[0][1])]["width"] == self.portinfo[T]["width"]]
            if cands:
                ops = d.choice(cands)
                ops[0:0] = [[ops[0][0], ops[0][1], ["pref", T[0], T[1]], d.choice(["call", "setattr", "connect"])],
                            [ops[0][0], ops[0][1], None, "disconnect"]]
                self.feats.add("anon_held_reference_tied_then_disconnected")
        hist = []
        pos = [0] * len(per_port)
        live = list(range(len(per_port)))
        while live:
            i = d.choice(live)
            hist.append(per_port[i][pos[i]])
            pos[i] += 1
            if pos[i] == len(per_port[i]):
                live.remove(i)
        # `n * inst` happens somewhere in the history: after the last decoy that only a plain instance can hold
        for inst in self.insts:
            if inst.get("kind") == "array" and inst.get("via") == "mult_late":
                last = -1
                for i, (iname, pn, e, op) in enumerate(hist):
                    if iname == inst["name"] and e is not None and _has_pref(e) and not (pn in dict(inst["conns"]) and dict(inst["conns"])[pn] is e):
                        last = i
                at = last + 1 if (last >= 0 and d.bool(60)) else d.int(last + 1, len(hist))
                hist.insert(at, [inst["name"], None, None, "mult"])
                if at < len(hist) - 1:
                    self.feats.add("array_multiplied_mid_history")
        self.referenced = saved
        self.decoy = False
        return hist

    def conn_for(self, inst, p, key, info, allow_ref=True):
        d, o = self.d, self.o
        kind = inst["kind"]
        if info["plan"] == "nc" and kind == "array" and p[0] == "bun" and o.avoid_known:
            # open finding C01-K1: a no-connect on a bundle-valued port of an InstanceArray
            self.feats.add("redirected:nc_on_array_bundle_port")
            info["plan"] = "explicit"
        if info["plan"] == "nc":
            self.feats.add("noconn")
            if kind == "array":
                self.feats.add("noconn_on_array")
            if o.named_nc and d.bool(30):
                self.ncid += 1
                self.feats.add("named_noconn")
                return ["nc", "n%d" % self.ncid, "ncname%d_%d" % (self.midx, self.ncid)]
            if d.bool(25):
                self.feats.add("shared_noconn")
                return ["nc", "shared", None]
            self.ncid += 1
            return ["nc", "n%d" % self.ncid, None]
        if p[0] == "bun":
            return self.bundle_expr(p[2], cur=key)
        w = p[2]
        if kind == "array":
            n = inst["n"]
            if n > 1 and d.bool(45) and not o.whole_only:
                self.feats.add("array_per_element")
                return self.expr(n * w, 0, allow_ref=False, cur=key)
            self.feats.add("array_broadcast")
            return self.expr(w, 0, allow_ref=False, cur=key)
        if kind == "pair" and inst.get("members"):
            if d.int(0, 9) < 7:
                self.feats.add("pair_anon")
                return ["anon", [[mn, self.expr(w, 1, allow_ref=False, cur=key)] for mn in inst["members"]]]
            self.feats.add("pair_scalar")
            return self.expr(w, 0, allow_ref=False, cur=key)
        if kind == "pair":
            r = d.int(0, 9)
            if r < 3 and w == 1 and o.bundles:
                di = self.diff_index()
                self.feats.add("pair_diff")
                return ["bun", self.bun_of_def(di)]
            if r < 6 and o.bundles:
                self.feats.add("pair_anon")
                return ["anon", [["p", self.expr(w, 1, allow_ref=False, cur=key)], ["n", self.expr(w, 1, allow_ref=False, cur=key)]]]
            self.feats.add("pair_scalar")
            return self.expr(w, 0, allow_ref=False, cur=key)
        return self.expr(w, 0, allow_ref=allow_ref, cur=key)

    def diff_index(self):
        for k, b in enumerate(self.spec["bundles"]):
            if b.get("builtin") == "Diff":
                return k
        self.spec["bundles"].append({"name": "Diff", "builtin": "Diff", "roles": False,
                                     "sigs": [["p", 1, "plain"], ["n", 1, "plain"]], "subs": []})
        return len(self.spec["bundles"]) - 1


def _ekind(e):
    return {"sig": "signal", "slice": "slice", "cat": "concat", "pref": "portref", "bref": "bundleref", "bun": "bundle",
            "anon": "anon", "nc": "noconn"}.get(e[0], e[0])


def _has_ref(e):
    if not isinstance(e, list):
        return False
    if e and e[0] == "pref":
        return True
    return any(_has_ref(x) for x in e if isinstance(x, list))


def gen_cells(d, o):
    cells = []
    for k in range(d.int(2, 4)):
        if o.prims and d.bool(25):
            cells.append({"kind": "prim", "prim": d.choice(["R", "C", "L", "Vcvs", "Mos", "Bipolar"]), "name": "P%d" % k})
        else:
            np_ = d.int(1, 4)
            names = PORT_NAMES[:np_]
            cells.append({"kind": "ext", "name": "X%d" % k,
                          "ports": [[n, d.width(o.wide), d.choice(DIRS)] for n in names]})
    exts = [c for c in cells if c["kind"] == "ext"]
    if o.same_name_ext and exts and d.bool(50):
        # a second external module with the NAME of an earlier one, in another domain (and with ports of its own)
        twin = d.choice(exts)
        names = PORT_NAMES[:d.int(1, 4)]
        cells.append({"kind": "ext", "name": twin["name"], "domain": "verif2",
                      "ports": [[n, d.width(o.wide), d.choice(DIRS)] for n in names]})
    return cells


def gen_bundles(d, o):
    if not o.bundles:
        return []
    out = []
    for k in range(d.int(2 if o.adversarial_leaf_names else 1 if o.bundle_port_pct > 50 else 0, 3)):
        roles = d.bool(30)
        kinds = SIG_KINDS + (["role_ab", "role_ba"] if roles else [])
        sigs = [[LEAF_NAMES[i], d.width(False), d.choice(kinds)] for i in range(d.int(1, 3))]
        subs = []
        if out and d.bool(85 if o.adversarial_leaf_names else 50):
            for i in range(d.int(1, 2)):
                sidx = d.int(0, len(out) - 1)
                flipped = d.bool(35)
                role = d.choice([None, "A", "B"]) if out[sidx].get("roles") else None
                subs.append([SUB_NAMES[i], sidx, flipped, d.choice(["ctor", "flipped"]) if flipped else "ctor", role])
        if o.adversarial_leaf_names and subs and d.bool(85):
            # a leaf whose name equals the flattened name of a member of one of the sub-bundles, e.g. `u_x`
            sub = d.choice(subs)
            inner = out[sub[1]]
            target = sub[0] + "_" + d.choice([sg[0] for sg in inner["sigs"]])
            if target not in [sg[0] for sg in sigs]:
                d.choice(sigs)[0] = target
        out.append({"name": "B%d" % k, "sigs": sigs, "subs": subs, "roles": roles})
    return out


@st.composite
def designs(draw, opts=None):
    o = opts or Opts()
    d = D(draw)
    feats = set()
    spec = {"cells": gen_cells(d, o), "bundles": gen_bundles(d, o), "modules": []}
    nmod = d.int(o.min_modules, o.max_modules)
    for k in range(nmod):
        mg = ModGen(d, spec, k, o, feats)
        spec["modules"].append(mg.generate(is_top=(k == nmod - 1)))
    spec["top"] = nmod - 1
    spec["features"] = sorted(feats)
    return spec
