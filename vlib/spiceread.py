"""Second, independent reading of what Hdl21 produced: the SPICE text written by the vlsirtools
netlister (h.netlist(top, fmt="spice")) -> flat circuit.

Nothing here looks at the vlsir package: sub-circuit ports and instance nets are positional in the
text, so this reading checks the package reader's bit-order convention end to end.
Supported leaves: external modules (x-elements whose sub-circuit is not defined in the text) and the
ideal R / C / L / VCVS primitives."""
import re
from . import model


class SpiceError(Exception):
    pass


PRIM_PREFIX = {"r": ("prim:resistor", ["p", "n"]), "c": ("prim:capacitor", ["p", "n"]), "l": ("prim:inductor", ["p", "n"]),
               "e": ("prim:vcvs", ["p", "n", "cp", "cn"])}


def parse(text):
    """-> {subckt name: {"ports": [tokens], "insts": [(prefix, name, nets, target, params)]}}"""
    subckts = {}
    cur = None
    lines = text.split("\n")
    i = 0
    while i < len(lines):
        ln = lines[i].rstrip()
        s = ln.strip()
        if not s or s.startswith("*"):
            i += 1
            continue
        if s.upper().startswith(".SUBCKT"):
            name = s.split()[1]
            cur = {"ports": [], "insts": []}
            subckts[name] = cur
            i += 1
            # port lines
            while i < len(lines) and lines[i].strip().startswith("+"):
                cur["ports"] += lines[i].strip()[1:].split()
                i += 1
            continue
        if s.upper().startswith(".ENDS"):
            cur = None
            i += 1
            continue
        if s.startswith(".") or s.startswith("+"):
            i += 1
            continue
        if cur is None:
            i += 1
            continue
        # an instance: header line, then '+' continuation lines
        head = s
        conts = []
        i += 1
        while i < len(lines) and (lines[i].strip().startswith("+") or lines[i].strip().startswith("*") or not lines[i].strip()):
            t = lines[i].strip()
            if t.startswith("+"):
                conts.append(t[1:].strip())
            elif t == "" and conts and len(conts) >= 2:
                # blank line ends the element once nets and target have been seen
                i += 1
                break
            i += 1
        if len(conts) < 2:
            raise SpiceError("instance %r without nets/target lines" % head)
        nets = [] if conts[0].startswith("*") else conts[0].split()  # "+ * No ports" for port-less sub-circuits
        target = conts[1].strip()
        params = dict(re.findall(r"(\w+)='([^']*)'", " ".join(conts[2:])))
        cur["insts"].append((head[0].lower(), head[1:], nets, target, params))
    return subckts


def flatten(text, spec, top_name):
    subckts = parse(text)
    if top_name not in subckts:
        raise SpiceError("no .SUBCKT %s in the netlist (have %s)" % (top_name, sorted(subckts)))
    cells = {c["name"]: c for c in spec["cells"] if c["kind"] == "ext"}
    devices = []

    def walk(name, path, binding):
        sc = subckts[name]

        def net(tok):
            return binding.get(tok, (path, tok))
        for prefix, iname, nets, target, params in sc["insts"]:
            sub = path + (iname,)
            if prefix == "x" and target in subckts:
                child = subckts[target]
                if len(child["ports"]) != len(nets):
                    raise SpiceError("instance %s of %s: %d nets for %d ports" % (iname, target, len(nets), len(child["ports"])))
                walk(target, sub, {p: net(t) for p, t in zip(child["ports"], nets)})
            elif prefix == "x":
                if target not in cells:
                    raise SpiceError("instance %s of unknown sub-circuit %s" % (iname, target))
                terms, k = {}, 0
                for pname, width, _d in cells[target]["ports"]:
                    bits = nets[k:k + width]
                    if len(bits) != width:
                        raise SpiceError("instance %s: too few nets" % iname)
                    terms[pname] = [net(t) for t in reversed(bits)]  # printed MSB first
                    k += width
                if k != len(nets):
                    raise SpiceError("instance %s: %d nets for %d port bits" % (iname, len(nets), k))
                tag = params.get("tag")
                devices.append({"cell": "ext:" + target, "params": int(tag) if tag is not None and re.fullmatch(r"-?\d+", tag) else tag,
                                "terms": terms, "path": sub})
            elif prefix in PRIM_PREFIX:
                cell, pnames = PRIM_PREFIX[prefix]
                if len(nets) != len(pnames):
                    raise SpiceError("element %s%s: %d nets" % (prefix, iname, len(nets)))
                m = re.fullmatch(r"-?\d+", target)
                devices.append({"cell": cell, "params": int(target) if m else target,
                                "terms": {p: [net(t)] for p, t in zip(pnames, nets)}, "path": sub})
            else:
                raise SpiceError("unsupported element %s%s" % (prefix, iname))

    walk(top_name, (), {})
    # top-level ports: tokens of the .SUBCKT header, identified through the expected port names and widths
    want = model.flatten(spec)["ports"]
    tok2port = {}
    for pname, bits in want.items():
        w = len(bits)
        if w == 1:
            tok2port[pname] = (pname, 0)
        else:
            for k in range(w):
                tok2port["%s_%d" % (pname, k)] = (pname, k)
    ports = {}
    for tok in subckts[top_name]["ports"]:
        if tok not in tok2port:
            raise SpiceError("top-level port token %r is not a bit of a designed port" % tok)
        pname, k = tok2port[tok]
        ports.setdefault(pname, {})[k] = ((), tok)
    out_ports = {}
    for pname, d in ports.items():
        out_ports[pname] = [d[k] for k in sorted(d)]
    return {"devices": devices, "ports": out_ports}
