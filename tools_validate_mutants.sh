#!/bin/bash
# usage: [WTPREFIX=/tmp/w3_] [SUFFIX=c] tools_validate_mutants.sh C01 [C02 ...] : validates <WTPREFIX><ID>/_out/<k>/ and copies good ones to /verif/seeded/<ID>_<SUFFIX><k>/
for id in "$@"; do
 wt=${WTPREFIX:-/tmp/wt_}$id
 for d in $wt/_out/[0-9]*; do
  [ -f $d/patch.diff ] || continue
  k=$(basename $d)
  git -C $wt checkout -q -- . ; git -C $wt clean -fdq -e _out
  base_demo=$(cd $wt && PYTHONPATH=$wt timeout 300 /venv/bin/python _out/$k/demo.py >/dev/null 2>&1; echo $?)
  if ! git -C $wt apply --check $d/patch.diff 2>/dev/null; then echo "$id/$k: patch does not apply"; continue; fi
  git -C $wt apply $d/patch.diff
  tests=$(cd $wt && PYTHONPATH=$wt timeout 900 /venv/bin/python -m pytest -q -p no:cacheprovider 2>&1 | tail -1)
  mut_demo=$(cd $wt && PYTHONPATH=$wt timeout 300 /venv/bin/python _out/$k/demo.py >/dev/null 2>&1; echo $?)
  git -C $wt checkout -q -- .
  ok=no
  if [ "$base_demo" = "0" ] && [ "$mut_demo" != "0" ] && echo "$tests" | grep -q "224 passed" && ! echo "$tests" | grep -qE "[0-9]+ (failed|error)"; then ok=yes; fi
  echo "$id/$k: demo_unpatched=$base_demo demo_patched=$mut_demo tests='$tests' keep=$ok"
  if [ $ok = yes ]; then
    dest=/verif/seeded/${id}_${SUFFIX}$k; mkdir -p $dest
    cp $d/patch.diff $d/demo.py $dest/
    /venv/bin/python - "$d/meta.json" "$dest/meta.json" "$tests" "$base_demo" "$mut_demo" <<'PY'
import json,sys
try: m=json.load(open(sys.argv[1]))
except Exception: m={}
m["validated_by_me"]={"tests_with_patch":sys.argv[3],"demo_exit_unpatched":int(sys.argv[4]),"demo_exit_patched":int(sys.argv[5]),
  "how":"in the scratch worktree: demo on clean tree, git apply patch, full pytest, demo again, git checkout"}
json.dump(m,open(sys.argv[2],"w"),indent=1)
PY
  fi
 done
done
