#!/bin/bash
# Runs every seeded mutant against the quick check of its own property; writes selftest/matrix.tsv
# usage: tools_mutant_matrix.sh [scratch worktree]   (default: a fresh worktree of /repo's HEAD under /tmp, removed afterwards)
wt=$1; own=0
if [ -z "$wt" ]; then wt=/tmp/wt_matrix_$$; git -C /repo worktree add -q --detach $wt HEAD; own=1; fi
mkdir -p /verif/selftest
out=/verif/selftest/matrix.tsv
# MATRIX_ONLY='C*_g*' re-takes only the matching rows (the others are kept as they are)
if [ -z "$MATRIX_ONLY" ]; then echo -e "mutant\tproperty\tapplies\texit\tsignatures" > $out; fi
for d in /verif/seeded/${MATRIX_ONLY:-C*}/; do
  m=$(basename $d); pid=${m%%_*}
  if [ -n "$MATRIX_ONLY" ]; then grep -v "^$m	" $out > $out.tmp; mv $out.tmp $out; fi
  git -C $wt checkout -q -- .
  if ! git -C $wt apply --check $d/patch.diff 2>/dev/null; then echo -e "$m\t$pid\tno\t-\t-" >> $out; continue; fi
  git -C $wt apply $d/patch.diff
  res=$(cd /verif && VERIF_REPO=$wt VERIF_NO_EVIDENCE=1 timeout 1800 /venv/bin/python run_check.py $pid 2>&1); rc=$?
  git -C $wt checkout -q -- .
  sigs=$(echo "$res" | grep "signature:" | sed 's/ *signature: //' | head -5 | tr '\n' ';')
  echo -e "$m\t$pid\tyes\t$rc\t$sigs" >> $out
  echo "$m exit=$rc"
done
[ $own = 1 ] && git -C /repo worktree remove --force $wt
