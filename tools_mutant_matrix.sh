#!/bin/bash
# Runs every seeded mutant against the quick check of its own property; writes selftest/matrix.tsv
mkdir -p /verif/selftest
out=/verif/selftest/matrix.tsv
echo -e "mutant\tproperty\tapplies\texit\tsignatures" > $out
for d in /verif/seeded/*/; do
  m=$(basename $d); pid=${m%%_*}
  if ! git -C /repo diff --quiet; then echo "/repo dirty"; exit 2; fi
  if ! git -C /repo apply --check $d/patch.diff 2>/dev/null; then echo -e "$m\t$pid\tno\t-\t-" >> $out; continue; fi
  git -C /repo apply $d/patch.diff
  res=$(cd /verif && VERIF_NO_EVIDENCE=1 timeout 1200 /venv/bin/python run_check.py $pid 2>&1); rc=$?
  git -C /repo checkout -- .
  sigs=$(echo "$res" | grep "signature:" | sed 's/ *signature: //' | head -5 | tr '\n' ';')
  echo -e "$m\t$pid\tyes\t$rc\t$sigs" >> $out
  echo "$m exit=$rc"
done
find /verif/replay -name "*.json" -newer $out -delete 2>/dev/null
