#!/usr/bin/env python3
"""usage: tools_make_task.py <ID> <worktree dir>  -> writes <worktree>/_out/TASK.md for a seeded-change sub-agent.
The task text contains the property's title, statement and quantifier only - nothing about /verif."""
import json, sys, os
pid, wt = sys.argv[1], sys.argv[2]
here = os.path.dirname(os.path.abspath(__file__))
prop = [json.loads(l) for l in open(os.path.join(here, "properties.jsonl")) if json.loads(l)["id"] == pid][0]
t = open(os.path.join(here, "selftest/templates/TASK_mutant.md")).read()
t = t.replace("@WT@", wt).replace("@ID@", pid).replace("@TITLE@", prop["title"]).replace("@STATEMENT@", prop["statement"]).replace("@QUANT@", prop["quantifier"]["text"])
os.makedirs(os.path.join(wt, "_out"), exist_ok=True)
open(os.path.join(wt, "_out", "TASK.md"), "w").write(t)
